// go2lean: translate the functions of selected packages of /repo's current source into Lean 4
// definitions over the GoRt vocabulary (lean/IkeModel/GoRt.lean).
//
//	go2lean <repo dir> <out dir> <pkg path suffix> [...]
//
// writes, per package P, <out dir>/Gen_P.lean and one <out dir>/translation.json that lists every
// function with its status (translated | untranslated + reason) and a hash of its source text.
//
// The translation is syntax-directed over the type-checked AST (go/packages):
//   - a function becomes `def` returning `Res (mutated pointer params × results)`; `return …, err`
//     with a non-nil error is `Res.err`; every indexing / slicing / make / PutUint / UintN is a
//     checked GoRt primitive (fault = Go panic);
//   - assignment is re-binding of the same Lean name; an `if` whose branches fall through pushes the
//     rest of the block into the branches (or into a local join point `jp`);
//   - every loop becomes its own structurally recursive `def …loopN` (fuel for `for`, the list for
//     `range`), `continue` = the recursive call, `break` = return of the loop-carried variables;
//   - pointers to structs are values: the translator refuses a function that writes through a
//     pointer after the pointer was stored somewhere, writes through a slice that it did not create
//     with make/append, or returns a pointer it also stored (aliasing the value model cannot express).
//
// Anything outside the subset makes the *function* untranslated (recorded with the reason and the
// source position); nothing is ever guessed.
package main

import (
	"crypto/sha1"
	"encoding/hex"
	"encoding/json"
	"fmt"
	"go/ast"
	"go/printer"
	"go/token"
	"go/types"
	"os"
	"path/filepath"
	"sort"
	"strings"

	"golang.org/x/tools/go/packages"
)

type FnReport struct {
	Pkg    string `json:"pkg"`
	Name   string `json:"name"`
	Lean   string `json:"lean,omitempty"`
	Status string `json:"status"` // translated | untranslated | skipped
	Reason string `json:"reason,omitempty"`
	Hash   string `json:"hash"`
	Loops  int    `json:"loops"`
	Notes  []string `json:"notes,omitempty"`
}

// extern: Go objects of packages that are not translated, mapped to hand-written Lean terms
type Extern struct {
	Types map[string]string    `json:"types"` // "pkgpath.Name" -> Lean type
	Funcs map[string]ExternFn `json:"funcs"` // "pkgpath.Recv.Name" or "pkgpath.Name" -> Lean fn
	Zero  map[string]string    `json:"zero"`  // Lean type -> zero value term
	// "pkgpath.Name" -> Go field name -> Lean field name (fields of extern struct types that may be touched)
	Fields map[string]map[string]string `json:"fields"`
	// package (short name) -> the translated packages whose GENERATED types and functions it refers to directly
	// (everything else it uses of another package is the hand-written stand-in above)
	Uses map[string][]string `json:"uses"`
	// "pkgpath.Name" of an extern type -> Lean test (with %s for the value) that stands for `== nil`
	NilTest map[string]string `json:"nilTest"`
	// "pkgpath.Concrete>pkgpath.Interface" -> Lean function turning the stand-in of the concrete extern type into the
	// stand-in of the extern interface type
	Coerce map[string]string `json:"coerce"`
}

type ExternFn struct {
	Lean        string `json:"lean"`
	MutatesRecv bool   `json:"mutatesRecv"`
	Pure        bool   `json:"pure"` // returns a plain value, not a Res
	UsesRand    bool   `json:"usesRand"` // takes the random source first and returns it first
	UsesPrims   bool   `json:"usesPrims"` // takes the primitives record P before everything else
}

type translator struct {
	fset    *token.FileSet
	pkgs    map[string]*packages.Package // by path
	targets []*packages.Package
	extern  Extern
	fns     map[*types.Func]*fnInfo
	order   []*fnInfo
	reports []FnReport
	// interfaces of target packages and their implementing named types
	ifaceImpl map[*types.Named][]*types.Named
	genPkgs   map[string]bool // package paths being translated
	out       map[string]*strings.Builder
	disp      map[dispKey]*dispInfo
	dispErr   map[dispKey]error
	curPkg    string
	usedGen   map[string]map[string]bool
	globalOK  map[*types.Var]bool
	escMemo   map[*types.Var]bool
	errEnum   bool // while translating a function that compares error values (err == io.EOF)
}

func pkgShort(path string) string {
	i := strings.LastIndex(path, "/")
	return path[i+1:]
}

func main() {
	if len(os.Args) < 4 {
		fmt.Fprintln(os.Stderr, "usage: go2lean <repo dir> <out dir> <pkg suffix>...")
		os.Exit(2)
	}
	repo, outDir := os.Args[1], os.Args[2]
	cfg := &packages.Config{Mode: packages.LoadAllSyntax, Dir: repo, Tests: false}
	pkgs, err := packages.Load(cfg, "./...")
	if err != nil {
		fmt.Fprintln(os.Stderr, err)
		os.Exit(2)
	}
	t := &translator{pkgs: map[string]*packages.Package{}, fns: map[*types.Func]*fnInfo{}, ifaceImpl: map[*types.Named][]*types.Named{},
		genPkgs: map[string]bool{}, out: map[string]*strings.Builder{},
		extern: Extern{Types: map[string]string{}, Funcs: map[string]ExternFn{}, Zero: map[string]string{}}}
	for _, p := range pkgs {
		if len(p.Errors) > 0 {
			fmt.Fprintln(os.Stderr, "package errors:", p.Errors)
			os.Exit(2)
		}
		t.pkgs[p.PkgPath] = p
		t.fset = p.Fset
	}
	exe, _ := os.Executable()
	for _, cand := range []string{filepath.Join(filepath.Dir(exe), "extern.json"), "extern.json", filepath.Join(filepath.Dir(os.Args[0]), "..", "tools", "go2lean", "extern.json")} {
		if b, err := os.ReadFile(cand); err == nil {
			if err := json.Unmarshal(b, &t.extern); err != nil {
				fmt.Fprintln(os.Stderr, "extern.json:", err)
				os.Exit(2)
			}
			break
		}
	}
	if env := os.Getenv("GO2LEAN_EXTERN"); env != "" {
		b, err := os.ReadFile(env)
		if err != nil {
			fmt.Fprintln(os.Stderr, err)
			os.Exit(2)
		}
		t.extern = Extern{}
		if err := json.Unmarshal(b, &t.extern); err != nil {
			fmt.Fprintln(os.Stderr, "extern:", err)
			os.Exit(2)
		}
	}
	for _, suf := range os.Args[3:] {
		var found *packages.Package
		for path, p := range t.pkgs {
			if strings.HasSuffix(path, "/"+suf) || path == suf || (suf == "." && !strings.Contains(strings.TrimPrefix(path, "github.com/free5gc/ike"), "/") && strings.HasSuffix(path, "free5gc/ike")) {
				found = p
			}
		}
		if found == nil {
			fmt.Fprintln(os.Stderr, "no package", suf)
			os.Exit(2)
		}
		t.targets = append(t.targets, found)
		t.genPkgs[found.PkgPath] = true
	}
	os.MkdirAll(outDir, 0o755)
	for _, p := range t.targets {
		t.translatePackage(p)
	}
	for _, p := range t.targets {
		name := "Gen_" + leanPkgName(p)
		if err := os.WriteFile(filepath.Join(outDir, name+".lean"), []byte(t.out[p.PkgPath].String()), 0o644); err != nil {
			fmt.Fprintln(os.Stderr, err)
			os.Exit(2)
		}
	}
	sort.Slice(t.reports, func(i, j int) bool {
		if t.reports[i].Pkg != t.reports[j].Pkg {
			return t.reports[i].Pkg < t.reports[j].Pkg
		}
		return t.reports[i].Name < t.reports[j].Name
	})
	b, _ := json.MarshalIndent(t.reports, "", " ")
	os.WriteFile(filepath.Join(outDir, "translation.json"), append(b, '\n'), 0o644)
	n := 0
	for _, r := range t.reports {
		if r.Status == "translated" {
			n++
		}
	}
	fmt.Printf("go2lean: %d of %d functions translated\n", n, len(t.reports))
}

func leanPkgName(p *packages.Package) string {
	s := pkgShort(p.PkgPath)
	if s == "ike" {
		return "ike"
	}
	return s
}

func (t *translator) srcHash(n ast.Node) string {
	var sb strings.Builder
	cfg := printer.Config{Mode: printer.RawFormat}
	// comments are not attached to the node when printed alone: the text is comment-free
	cfg.Fprint(&sb, t.fset, n)
	h := sha1.Sum([]byte(sb.String()))
	return hex.EncodeToString(h[:8])
}

func (t *translator) pos(n ast.Node) string {
	p := t.fset.Position(n.Pos())
	return fmt.Sprintf("%s:%d", filepath.Base(p.Filename), p.Line)
}

var leanKeywords = map[string]bool{"type": true, "Type": true, "end": true, "from": true, "at": true, "fun": true, "open": true, "namespace": true,
	"section": true, "def": true, "theorem": true, "let": true, "in": true, "do": true, "then": true, "else": true, "if": true, "match": true, "with": true,
	"where": true, "have": true, "show": true, "by": true, "instance": true, "class": true, "structure": true, "inductive": true, "import": true,
	"export": true, "variable": true, "universe": true, "local": true, "private": true, "protected": true, "Prop": true, "Sort": true, "set": true,
	"mut": true, "return": true, "for": true, "break": true, "continue": true, "this": true, "self": true, "default": true, "deriving": true,
	"extends": true, "attribute": true, "macro": true, "syntax": true, "prefix": true, "infix": true, "notation": true, "using": true, "calc": true,
	"nomatch": true, "nofun": true, "partial": true, "unsafe": true, "axiom": true, "example": true, "abbrev": true, "mutual": true, "try": true,
	"catch": true, "finally": true, "unless": true, "at_": true, "r": false, "length": true, "data": false, "value": false}

func san(name string) string {
	if leanKeywords[name] {
		return name + "_"
	}
	return name
}

// ---------- types

func (t *translator) leanType(ty types.Type) (string, error) {
	switch x := ty.(type) {
	case *types.Basic:
		switch x.Kind() {
		case types.Uint8:
			return "UInt8", nil
		case types.Uint16:
			return "UInt16", nil
		case types.Uint32:
			return "UInt32", nil
		case types.Uint64:
			return "UInt64", nil
		case types.Int:
			return "Int", nil
		case types.Bool:
			return "Bool", nil
		case types.String, types.UntypedString:
			return "Bytes", nil
		}
		return "", fmt.Errorf("basic type %s", x.Name())
	case *types.Pointer:
		if _, ok := x.Elem().Underlying().(*types.Basic); ok {
			e, err := t.leanType(x.Elem())
			if err != nil {
				return "", err
			}
			return "(Option " + e + ")", nil
		}
		return t.leanType(x.Elem())
	case *types.Slice:
		if b, ok := x.Elem().(*types.Basic); ok && b.Kind() == types.Uint8 {
			return "Bytes", nil
		}
		e, err := t.leanType(x.Elem())
		if err != nil {
			return "", err
		}
		return "(List " + e + ")", nil
	case *types.Named:
		obj := x.Obj()
		if obj.Pkg() == nil {
			if obj.Name() == "error" {
				if t.errEnum {
					return "Go.Err", nil
				}
				return "Bool", nil
			}
			return "", fmt.Errorf("universe type %s", obj.Name())
		}
		key := obj.Pkg().Path() + "." + obj.Name()
		switch key {
		case "bytes.Buffer":
			return "Bytes", nil
		case "bufio.Reader", "bytes.Reader":
			return "Go.Reader", nil
		case "hash.Hash":
			return "Go.Mac", nil
		case "math/big.Int":
			return "Nat", nil
		case "crypto/cipher.Block":
			return "Bytes", nil
		case "crypto/cipher.BlockMode":
			return "Go.Cbc", nil
		}
		if l, ok := t.extern.Types[key]; ok && (l == "" || !t.genPkgs[obj.Pkg().Path()]) {
			if l == "" {
				return "", fmt.Errorf("type %s is not translated", key)
			}
			return l, nil
		}
		if t.genPkgs[obj.Pkg().Path()] {
			switch x.Underlying().(type) {
			case *types.Struct, *types.Interface:
				if t.usedGen != nil && t.curPkg != "" && t.curPkg != obj.Pkg().Path() {
					t.usedGen[t.curPkg][obj.Pkg().Path()] = true
				}
				return "Ike.Gen." + pkgShort(obj.Pkg().Path()) + "." + san(obj.Name()), nil
			default:
				return t.leanType(x.Underlying())
			}
		}
		// named non-struct types of other packages are their underlying type
		switch x.Underlying().(type) {
		case *types.Basic, *types.Slice:
			return t.leanType(x.Underlying())
		}
		return "", fmt.Errorf("type %s of a package that is not translated", key)
	case *types.Alias:
		return t.leanType(types.Unalias(x))
	case *types.Signature:
		// a function value: only references to top-level functions are translated
		var parts []string
		for i := 0; i < x.Params().Len(); i++ {
			p, err := t.leanType(x.Params().At(i).Type())
			if err != nil {
				return "", err
			}
			parts = append(parts, p)
		}
		var rs []string
		for i := 0; i < x.Results().Len(); i++ {
			if isErrorType(x.Results().At(i).Type()) {
				continue
			}
			r, err := t.leanType(x.Results().At(i).Type())
			if err != nil {
				return "", err
			}
			rs = append(rs, r)
		}
		res := "Res (" + tupleType(rs) + ")"
		if len(parts) == 0 {
			return "(Unit → " + res + ")", nil
		}
		return "(" + strings.Join(parts, " → ") + " → " + res + ")", nil
	case *types.Map:
		k, err := t.leanType(x.Key())
		if err != nil {
			return "", err
		}
		v, err := t.leanType(x.Elem())
		if err != nil {
			return "", err
		}
		return "(Go.Map " + k + " " + v + ")", nil
	}
	return "", fmt.Errorf("type %s", ty.String())
}

// zero value of a Go type as a Lean term
func (t *translator) zero(ty types.Type) (string, error) {
	switch x := ty.Underlying().(type) {
	case *types.Basic:
		switch x.Kind() {
		case types.Bool:
			return "false", nil
		case types.String:
			return "([] : Bytes)", nil
		}
		lt, err := t.leanType(ty)
		if err != nil {
			return "", err
		}
		return "(0 : " + lt + ")", nil
	case *types.Slice:
		return "[]", nil
	case *types.Map:
		return "none", nil
	case *types.Signature:
		return "default", nil
	case *types.Pointer:
		if _, ok := x.Elem().Underlying().(*types.Basic); ok {
			return "none", nil
		}
		return t.zero(x.Elem())
	case *types.Struct, *types.Interface:
		lt, err := t.leanType(ty)
		if err != nil {
			return "", err
		}
		if z, ok := t.extern.Zero[lt]; ok {
			return z, nil
		}
		if n, ok := ty.(*types.Named); ok && n.Obj().Pkg() == nil { // error
			if t.errEnum {
				return "Go.Err.none", nil
			}
			return "false", nil
		}
		if lt == "Bytes" || lt == "Go.Reader" {
			return "([] : Bytes)", nil
		}
		if lt == "Go.Mac" {
			return "Go.Mac.nil", nil
		}
		if lt == "Nat" {
			return "(0 : Nat)", nil
		}
		if lt == "Go.Cbc" {
			return "({} : Go.Cbc)", nil
		}
		if _, ok := ty.Underlying().(*types.Interface); ok {
			return "(" + lt + ".nil_)", nil
		}
		return "({} : " + lt + ")", nil
	}
	return "", fmt.Errorf("zero value of %s", ty.String())
}

func isErrorType(ty types.Type) bool {
	n, ok := ty.(*types.Named)
	return ok && n.Obj().Pkg() == nil && n.Obj().Name() == "error"
}

func derefNamed(ty types.Type) *types.Named {
	if p, ok := ty.(*types.Pointer); ok {
		ty = p.Elem()
	}
	ty = types.Unalias(ty)
	n, _ := ty.(*types.Named)
	return n
}

func (t *translator) emitTypes(p *packages.Package, sb *strings.Builder) {
	scope := p.Types.Scope()
	var structs, ifaces []*types.Named
	for _, name := range scope.Names() {
		tn, ok := scope.Lookup(name).(*types.TypeName)
		if !ok || tn.IsAlias() {
			continue
		}
		n, ok := tn.Type().(*types.Named)
		if !ok {
			continue
		}
		switch n.Underlying().(type) {
		case *types.Struct:
			structs = append(structs, n)
		case *types.Interface:
			ifaces = append(ifaces, n)
		}
	}
	// implementing types (pointer receivers), in declaration order of the package scope (alphabetical: stable)
	for _, in := range ifaces {
		it := in.Underlying().(*types.Interface)
		if it.NumMethods() == 0 {
			continue
		}
		for _, s := range structs {
			if types.Implements(types.NewPointer(s), it) || types.Implements(s, it) {
				t.ifaceImpl[in] = append(t.ifaceImpl[in], s)
			}
		}
	}
	// topological order over struct field / interface member dependencies
	done := map[*types.Named]bool{}
	failed := map[*types.Named]string{}
	var visit func(n *types.Named, stack map[*types.Named]bool)
	var deps func(ty types.Type, f func(*types.Named))
	deps = func(ty types.Type, f func(*types.Named)) {
		switch x := ty.(type) {
		case *types.Pointer:
			deps(x.Elem(), f)
		case *types.Slice:
			deps(x.Elem(), f)
		case *types.Map:
			deps(x.Key(), f)
			deps(x.Elem(), f)
		case *types.Named:
			if x.Obj().Pkg() != nil && x.Obj().Pkg().Path() == p.PkgPath {
				switch x.Underlying().(type) {
				case *types.Struct, *types.Interface:
					f(x)
				default:
					deps(x.Underlying(), f)
				}
			}
		}
	}
	visit = func(n *types.Named, stack map[*types.Named]bool) {
		if done[n] || failed[n] != "" {
			return
		}
		if stack[n] {
			failed[n] = "recursive type"
			return
		}
		stack[n] = true
		defer delete(stack, n)
		switch u := n.Underlying().(type) {
		case *types.Struct:
			var fields []string
			for i := 0; i < u.NumFields(); i++ {
				f := u.Field(i)
				deps(f.Type(), func(d *types.Named) { visit(d, stack) })
				lt, err := t.leanType(f.Type())
				if err == nil {
					if dn := derefNamed(f.Type()); dn != nil && failed[dn] != "" {
						err = fmt.Errorf("field type %s: %s", dn.Obj().Name(), failed[dn])
					}
				}
				if err != nil {
					failed[n] = fmt.Sprintf("field %s: %v", f.Name(), err)
					return
				}
				z, err := t.zero(f.Type())
				if err != nil {
					failed[n] = fmt.Sprintf("field %s: %v", f.Name(), err)
					return
				}
				fields = append(fields, fmt.Sprintf("  %s : %s := %s", san(f.Name()), lt, z))
			}
			fmt.Fprintf(sb, "structure %s where\n", san(n.Obj().Name()))
			if len(fields) == 0 {
				fmt.Fprintf(sb, "  mk ::\n")
			}
			for _, f := range fields {
				sb.WriteString(f + "\n")
			}
			fmt.Fprintf(sb, "deriving Repr, Inhabited, DecidableEq\n\n")
		case *types.Interface:
			impls := t.ifaceImpl[n]
			if len(impls) == 0 {
				failed[n] = "interface without implementing struct in the package"
				return
			}
			for _, s := range impls {
				visit(s, stack)
				if failed[s] != "" {
					failed[n] = "implementing type " + s.Obj().Name() + ": " + failed[s]
					return
				}
			}
			fmt.Fprintf(sb, "/-- Go interface `%s`: closed over the implementing types of the package; `nil_` is the nil interface -/\n", n.Obj().Name())
			fmt.Fprintf(sb, "inductive %s where\n  | nil_\n", san(n.Obj().Name()))
			for _, s := range impls {
				fmt.Fprintf(sb, "  | %s (v : %s)\n", san(s.Obj().Name()), san(s.Obj().Name()))
			}
			fmt.Fprintf(sb, "deriving Repr, Inhabited, DecidableEq\n\n")
		}
		done[n] = true
	}
	all := append(append([]*types.Named{}, structs...), ifaces...)
	for _, n := range all {
		visit(n, map[*types.Named]bool{})
	}
	for _, n := range all {
		if failed[n] != "" {
			fmt.Fprintf(sb, "-- type %s not translated: %s\n", n.Obj().Name(), failed[n])
			t.extern.Types[n.Obj().Pkg().Path()+"."+n.Obj().Name()] = "" // marks unusable
		}
	}
}
