package main

import (
	"fmt"
	"go/ast"
	"go/token"
	"go/types"
	"strings"
)

// calls into the standard library that the translator gives a meaning to itself:
// bytes.NewReader / bufio.NewReader / (*bufio.Reader).ReadByte / io.ReadFull  (a reader is the
// octets not yet read), bytes.Buffer + binary.Write (a buffer is the octets written so far),
// sort.Slice on octets.

func (c *fctx) pkgFunc(call *ast.CallExpr) string {
	sel, ok := call.Fun.(*ast.SelectorExpr)
	if !ok {
		return ""
	}
	if p, ok := c.isPkgIdent(sel.X); ok {
		return p + "." + sel.Sel.Name
	}
	return ""
}

// method of a standard-library type: "bufio.Reader.ReadByte"
func (c *fctx) stdMethod(call *ast.CallExpr) (string, ast.Expr) {
	sel, ok := call.Fun.(*ast.SelectorExpr)
	if !ok {
		return "", nil
	}
	s, ok := c.info.Selections[sel]
	if !ok || s.Kind() != types.MethodVal {
		return "", nil
	}
	n := derefNamed(s.Recv())
	if n == nil || n.Obj().Pkg() == nil {
		return "", nil
	}
	return n.Obj().Pkg().Path() + "." + n.Obj().Name() + "." + sel.Sel.Name, sel.X
}

func (c *fctx) isSpecialCall(call *ast.CallExpr) bool {
	switch c.pkgFunc(call) {
	case "bytes.NewReader", "bufio.NewReader", "io.ReadFull", "encoding/binary.Write", "sort.Slice",
		"bytes.Equal", "crypto/hmac.Equal", "strings.Repeat", "crypto/rand.Int", "crypto/rand.Read", "crypto/aes.NewCipher", "crypto/cipher.NewCBCEncrypter", "crypto/cipher.NewCBCDecrypter":
		return true
	}
	m, _ := c.stdMethod(call)
	switch m {
	case "math/big.Int.Cmp":
		return true
	case "math/big.Int.Exp", "math/big.Int.Bytes", "math/big.Int.SetUint64", "math/big.Int.SetBytes", "math/big.Int.SetString",
		"crypto/cipher.BlockMode.CryptBlocks":
		return true
	case "bytes.Buffer.Bytes", "bytes.Buffer.Write", "bufio.Reader.ReadByte", "bytes.Reader.ReadByte",
		"hash.Hash.Write", "hash.Hash.Sum", "hash.Hash.Reset", "hash.Hash.Size":
		return true
	}
	if c.pkgFunc(call) == "crypto/hmac.New" {
		return true
	}
	return false
}

// hmac.New(sha256.New, key): the hash number of Prims.mac
func (c *fctx) hashNumber(e ast.Expr) string {
	if sel, ok := e.(*ast.SelectorExpr); ok && sel.Sel.Name == "New" {
		if p, ok := c.isPkgIdent(sel.X); ok {
			switch p {
			case "crypto/md5":
				return "0"
			case "crypto/sha1":
				return "1"
			case "crypto/sha256":
				return "2"
			}
		}
	}
	c.fail(e, "hash constructor")
	return ""
}

func (c *fctx) errNone() string {
	if c.t.errEnum {
		return "Go.Err.none"
	}
	return "false"
}

func (c *fctx) errOther() string {
	if c.t.errEnum {
		return "Go.Err.other"
	}
	return "true"
}

// a Go.Err value as the representation of `error` used in this function
func (c *fctx) errFromEnum(v string) string {
	if c.t.errEnum {
		return v
	}
	return "(decide (" + v + " ≠ Go.Err.none))"
}

func (c *fctx) errIsNonNil(v string) string {
	if c.t.errEnum {
		return "(" + v + " ≠ Go.Err.none)"
	}
	return "(" + v + " = true)"
}

func (c *fctx) specialCallExpr(call *ast.CallExpr) (string, bool) {
	switch c.pkgFunc(call) {
	case "bytes.NewReader", "bufio.NewReader":
		return c.expr(call.Args[0]), true
	case "strings.Repeat":
		return "(Go.strRepeat " + c.expr(call.Args[0]) + " " + c.toInt(call.Args[1]) + ")", true
	case "bytes.Equal", "crypto/hmac.Equal":
		// hmac.Equal is a constant-time comparison: the same value as bytes.Equal
		return "(" + c.expr(call.Args[0]) + " == " + c.expr(call.Args[1]) + ")", true
	case "crypto/hmac.New":
		return "(Go.Mac.new " + c.hashNumber(call.Args[0]) + " " + c.expr(call.Args[1]) + ")", true
	case "crypto/cipher.NewCBCEncrypter":
		return c.bindM("", "Go.newCbc true "+c.expr(call.Args[0])+" "+c.expr(call.Args[1])), true
	case "crypto/cipher.NewCBCDecrypter":
		return c.bindM("", "Go.newCbc false "+c.expr(call.Args[0])+" "+c.expr(call.Args[1])), true
	}
	m, recv := c.stdMethod(call)
	switch m {
	case "math/big.Int.Exp":
		// z.Exp(x, y, m) = x**y mod |m| (m = 0: x**y); the receiver only provides the storage
		c.needFreshBig(call, recv)
		return "(Go.bigExp " + c.expr(call.Args[0]) + " " + c.expr(call.Args[1]) + " " + c.expr(call.Args[2]) + ")", true
	case "math/big.Int.Bytes":
		return "(natBytesMin " + c.expr(recv) + ")", true
	case "math/big.Int.Cmp":
		return "(Go.bigCmp " + c.bigArg(recv) + " " + c.bigArg(call.Args[0]) + ")", true
	case "math/big.Int.SetUint64":
		c.needFreshBig(call, recv)
		if nt, ok := c.natTerm(call.Args[0]); ok {
			return "(" + nt + " : Nat)", true
		}
		c.fail(call, "SetUint64 argument")
	case "math/big.Int.SetBytes":
		c.needFreshBig(call, recv)
		return "(beNat " + c.expr(call.Args[0]) + ")", true
	case "bytes.Buffer.Bytes":
		return c.expr(recv), true
	case "hash.Hash.Sum":
		c.fi.usesPrims = true
		arg := "[]"
		if id, ok := call.Args[0].(*ast.Ident); !ok || id.Name != "nil" {
			arg = c.expr(call.Args[0])
		}
		return "(Go.Mac.sum P " + c.expr(recv) + " " + arg + ")", true
	case "hash.Hash.Size":
		c.fi.usesPrims = true
		return "((Go.Mac.size P " + c.expr(recv) + " : Nat) : Int)", true
	}
	return "", false
}

func (c *fctx) binaryWriteEnc(n ast.Node, v ast.Expr) string {
	ty := c.info.Types[v].Type
	s := c.expr(v)
	lt := c.ltype(n, ty)
	switch lt {
	case "UInt8":
		return "[" + s + "]"
	case "UInt16":
		return "(put16 " + s + ")"
	case "UInt32":
		return "(put32 " + s + ")"
	case "UInt64":
		return "(put64 " + s + ")"
	case "Bytes":
		return s
	}
	c.fail(n, "binary.Write of %s", ty)
	return ""
}

// statements  x, err := r.ReadByte() / n, err = io.ReadFull(r, buf) / err = binary.Write(buf, binary.BigEndian, v) / v, ok := m[k]
func (c *fctx) specialAssign(s *ast.AssignStmt) bool {
	if len(s.Rhs) != 1 {
		return false
	}
	if ix, ok := s.Rhs[0].(*ast.IndexExpr); ok && len(s.Lhs) == 2 {
		if _, isMap := c.info.Types[ix.X].Type.Underlying().(*types.Map); isMap {
			t := c.fresh("g")
			c.letPure(t, "", "Go.mapGet "+c.expr(ix.X)+" "+c.expr(ix.Index))
			c.lvalSet(s.Lhs[0], t+".1")
			c.lvalSet(s.Lhs[1], t+".2")
			return true
		}
	}
	call, ok := s.Rhs[0].(*ast.CallExpr)
	if !ok {
		return false
	}
	if m, recv := c.stdMethod(call); m == "math/big.Int.SetString" {
		c.needFreshBig(call, recv)
		// v, ok := new(big.Int).SetString(s, 16)
		if len(s.Lhs) != 2 || len(call.Args) != 2 {
			c.fail(s, "SetString results")
		}
		if tv := c.info.Types[call.Args[1]]; tv.Value == nil || tv.Value.ExactString() != "16" {
			c.fail(s, "SetString with a base other than 16")
		}
		t := c.fresh("bn")
		c.letPure(t, "", "Go.bigSetHex "+c.expr(call.Args[0]))
		c.lvalSet(s.Lhs[0], t+".1")
		c.lvalSet(s.Lhs[1], t+".2")
		return true
	}
	if m, recv := c.stdMethod(call); m == "hash.Hash.Write" {
		if len(s.Lhs) != 2 {
			c.fail(s, "Write results")
		}
		x := c.expr(call.Args[0])
		c.lvalSet(recv, "(Go.Mac.write "+c.expr(recv)+" "+x+")")
		c.lvalSet(s.Lhs[0], "("+x+".length : Int)")
		c.lvalSet(s.Lhs[1], c.errNone())
		return true
	}
	if m, recv := c.stdMethod(call); m == "bufio.Reader.ReadByte" || m == "bytes.Reader.ReadByte" {
		if len(s.Lhs) != 2 {
			c.fail(s, "ReadByte results")
		}
		t := c.fresh("rd")
		c.letPure(t, "", "Go.readByte "+c.expr(recv))
		c.lvalSet(recv, t+".1")
		c.lvalSet(s.Lhs[0], t+".2.1")
		c.lvalSet(s.Lhs[1], c.errFromEnum(t+".2.2"))
		return true
	}
	switch c.pkgFunc(call) {
	case "crypto/aes.NewCipher":
		if len(s.Lhs) != 2 {
			c.fail(s, "NewCipher results")
		}
		t := c.fresh("ac")
		c.letPure(t, "", "Go.aesNewCipher "+c.expr(call.Args[0]))
		c.lvalSet(s.Lhs[0], t+".1")
		c.lvalSet(s.Lhs[1], c.errFromEnum(t+".2"))
		return true
	case "crypto/rand.Int":
		if len(s.Lhs) != 2 || !c.isRandReader(call.Args[0]) {
			c.fail(s, "rand.Int on a reader other than rand.Reader")
		}
		if !c.fi.usesRand {
			c.fail(s, "random source outside the pre-pass")
		}
		t := c.bindM("", "Go.randInt rnd_ "+c.bigArg(call.Args[1]))
		c.letPure("rnd_", "Rand", t+".1")
		c.lvalSet(s.Lhs[0], t+".2.1")
		c.lvalSet(s.Lhs[1], c.errFromEnum(t+".2.2"))
		return true
	case "crypto/rand.Read", "io.ReadFull":
		bufArg := call.Args[len(call.Args)-1]
		if c.pkgFunc(call) == "crypto/rand.Read" || c.isRandReader(call.Args[0]) {
			if len(s.Lhs) != 2 {
				c.fail(s, "Read results")
			}
			if !c.fi.usesRand {
				c.fail(s, "random source outside the pre-pass")
			}
			t := c.fresh("rf")
			c.letPure(t, "", "Go.randFill rnd_ "+c.expr(bufArg))
			c.letPure("rnd_", "Rand", t+".1")
			c.lvalSet(bufArg, t+".2.1")
			if v := c.natVarOf(s.Lhs[0]); v != nil {
				c.lvalSet(s.Lhs[0], t+".2.2.1")
			} else {
				c.lvalSet(s.Lhs[0], "("+t+".2.2.1 : Int)")
			}
			c.lvalSet(s.Lhs[1], c.errFromEnum(t+".2.2.2"))
			return true
		}
		if len(s.Lhs) != 2 {
			c.fail(s, "ReadFull results")
		}
		t := c.fresh("rd")
		c.letPure(t, "", "Go.readFull "+c.expr(call.Args[0])+" "+c.expr(call.Args[1]))
		c.lvalSet(call.Args[0], t+".1")
		c.lvalSet(call.Args[1], t+".2.1")
		if v := c.natVarOf(s.Lhs[0]); v != nil {
			c.lvalSet(s.Lhs[0], t+".2.2.1")
		} else {
			c.lvalSet(s.Lhs[0], "("+t+".2.2.1 : Int)")
		}
		c.lvalSet(s.Lhs[1], c.errFromEnum(t+".2.2.2"))
		return true
	case "encoding/binary.Write":
		if len(s.Lhs) != 1 || len(call.Args) != 3 {
			c.fail(s, "binary.Write")
		}
		c.checkBigEndian(call.Args[1])
		buf := c.expr(call.Args[0])
		c.lvalSet(call.Args[0], "("+buf+" ++ "+c.binaryWriteEnc(call, call.Args[2])+")")
		c.lvalSet(s.Lhs[0], c.errNone())
		return true
	}
	return false
}

func (c *fctx) isRandReader(e ast.Expr) bool {
	sel, ok := e.(*ast.SelectorExpr)
	if !ok || sel.Sel.Name != "Reader" {
		return false
	}
	p, ok := c.isPkgIdent(sel.X)
	return ok && p == "crypto/rand"
}

func (c *fctx) checkBigEndian(e ast.Expr) {
	if sel, ok := e.(*ast.SelectorExpr); ok {
		if p, ok := c.isPkgIdent(sel.X); ok && p == "encoding/binary" && sel.Sel.Name == "BigEndian" {
			return
		}
	}
	c.fail(e, "byte order other than binary.BigEndian")
}

func (c *fctx) specialCallStmt(call *ast.CallExpr) bool {
	if m, recv := c.stdMethod(call); m == "math/big.Int.SetString" {
		// x.SetString(s, 16) as a statement (results dropped): x := the number; a string that does not parse leaves x
		// undefined in Go (documented) — the translation takes the parsed prefix value bigSetHex yields
		if tv := c.info.Types[call.Args[1]]; tv.Value == nil || tv.Value.ExactString() != "16" {
			c.fail(call, "SetString with a base other than 16")
		}
		c.lvalSet(recv, "(Go.bigSetHex "+c.expr(call.Args[0])+").1")
		return true
	}
	if m, recv := c.stdMethod(call); m == "bytes.Buffer.Write" {
		c.lvalSet(recv, "("+c.expr(recv)+" ++ "+c.expr(call.Args[0])+")")
		return true
	} else if m == "hash.Hash.Write" {
		c.lvalSet(recv, "(Go.Mac.write "+c.expr(recv)+" "+c.expr(call.Args[0])+")")
		return true
	} else if m == "hash.Hash.Reset" {
		c.lvalSet(recv, "(Go.Mac.reset "+c.expr(recv)+")")
		return true
	}
	if m, recv := c.stdMethod(call); m == "crypto/cipher.BlockMode.CryptBlocks" {
		// mode.CryptBlocks(dst, src): the result is written to the front of dst
		c.fi.usesPrims = true
		base, lo, hi := c.window(call.Args[0])
		c.requireOwned(base)
		b := c.expr(base)
		src := c.expr(call.Args[1])
		t := c.bindM("", fmt.Sprintf("Go.cryptBlocks P %s (%s - %s) %s", c.expr(recv), hi, lo, src))
		c.lvalSet(base, fmt.Sprintf("(Go.splice %s %s %s)", b, lo, t))
		return true
	}
	switch c.pkgFunc(call) {
	case "encoding/binary.Write":
		c.checkBigEndian(call.Args[1])
		buf := c.expr(call.Args[0])
		c.lvalSet(call.Args[0], "("+buf+" ++ "+c.binaryWriteEnc(call, call.Args[2])+")")
		return true
	case "sort.Slice":
		// sort.Slice(x, func(i, j int) bool { return x[i] < x[j] }) on a list of octets
		fl, ok := call.Args[1].(*ast.FuncLit)
		if !ok || len(fl.Body.List) != 1 {
			c.fail(call, "sort.Slice with this comparison")
		}
		ret, ok := fl.Body.List[0].(*ast.ReturnStmt)
		if !ok || len(ret.Results) != 1 {
			c.fail(call, "sort.Slice with this comparison")
		}
		be, ok := ret.Results[0].(*ast.BinaryExpr)
		if !ok || be.Op != token.LSS {
			c.fail(call, "sort.Slice with this comparison")
		}
		strip := func(e ast.Expr) ast.Expr {
			for {
				switch x := e.(type) {
				case *ast.ParenExpr:
					e = x.X
					continue
				case *ast.CallExpr:
					if tv, ok := c.info.Types[x.Fun]; ok && tv.IsType() && len(x.Args) == 1 {
						e = x.Args[0]
						continue
					}
				}
				return e
			}
		}
		li, lok := strip(be.X).(*ast.IndexExpr)
		ri, rok := strip(be.Y).(*ast.IndexExpr)
		if !lok || !rok {
			c.fail(call, "sort.Slice with this comparison")
		}
		pi, pj := fl.Type.Params.List[0].Names, fl.Type.Params.List
		_ = pj
		var names []string
		for _, f := range fl.Type.Params.List {
			for _, n := range f.Names {
				names = append(names, n.Name)
			}
		}
		_ = pi
		same := func(a, b ast.Expr) bool { return types.ExprString(a) == types.ExprString(b) }
		if len(names) != 2 || !same(li.X, call.Args[0]) || !same(ri.X, call.Args[0]) ||
			types.ExprString(li.Index) != names[0] || types.ExprString(ri.Index) != names[1] {
			c.fail(call, "sort.Slice with this comparison")
		}
		if lt := c.ltype(call, c.info.Types[call.Args[0]].Type); lt != "Bytes" && lt != "(List UInt8)" {
			c.fail(call, "sort.Slice on %s", lt)
		}
		c.lvalSet(call.Args[0], "(Go.sortU8 "+c.expr(call.Args[0])+")")
		return true
	}
	return false
}

// has the function assigned make(...) to this very field path?  (then writing through it is a write to fresh memory)
func (c *fctx) fieldMadeHere(e ast.Expr) bool {
	want := types.ExprString(e)
	found := false
	ast.Inspect(c.fi.decl.Body, func(n ast.Node) bool {
		if as, ok := n.(*ast.AssignStmt); ok && len(as.Lhs) == len(as.Rhs) {
			for i, l := range as.Lhs {
				if types.ExprString(l) == want {
					if call, ok := as.Rhs[i].(*ast.CallExpr); ok {
						if id, ok := call.Fun.(*ast.Ident); ok && id.Name == "make" {
							found = true
						}
					}
				}
			}
		}
		return true
	})
	return found
}

var _ = fmt.Sprintf
var _ = strings.Join

// needFreshBig: the setters of math/big.Int (Exp, SetString, SetBytes, SetUint64) store their result in the
// receiver; they are translated as pure functions of their arguments, which is only right when the receiver
// is a fresh object (new(big.Int)) that nothing else can see
func (c *fctx) needFreshBig(at ast.Node, recv ast.Expr) {
	for {
		p, ok := recv.(*ast.ParenExpr)
		if !ok {
			break
		}
		recv = p.X
	}
	if call, ok := recv.(*ast.CallExpr); ok {
		if id, ok := call.Fun.(*ast.Ident); ok && id.Name == "new" && len(call.Args) == 1 {
			if _, isB := c.info.Uses[id].(*types.Builtin); isB {
				return
			}
		}
	}
	c.fail(at, "math/big setter on a receiver that is not a fresh new(big.Int): the result is also stored in an object that outlives the call")
}

// a *big.Int argument: `&x` of a big.Int variable is the number x
func (c *fctx) bigArg(e ast.Expr) string {
	if u, ok := ast.Unparen(e).(*ast.UnaryExpr); ok && u.Op == token.AND {
		return c.expr(u.X)
	}
	return c.expr(e)
}
