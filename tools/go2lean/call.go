package main

import (
	"fmt"
	"go/ast"
	"go/token"
	"go/types"
	"sort"
	"strings"
)

type callOut struct {
	randFirst bool // the callee draws from the random source: it takes rnd_ and returns it first
	term      string
	writeback []ast.Expr
	nres      int
	hasErr    bool
	resTypes  []types.Type
}

// dispatcher for an interface method: generated on demand, once
type dispKey struct {
	in   *types.Named
	name string
}

func (t *translator) qual(from *fnInfo, ci *fnInfo) string {
	if from.pkg == ci.pkg {
		return ci.leanName
	}
	if t.usedGen != nil {
		t.usedGen[from.pkg.PkgPath][ci.pkg.PkgPath] = true
	}
	return "Ike.Gen." + leanPkgName(ci.pkg) + "." + ci.leanName
}

func (c *fctx) argValue(a ast.Expr, target types.Type) (string, ast.Expr) {
	if u, ok := a.(*ast.UnaryExpr); ok && u.Op == token.AND {
		if _, ok := u.X.(*ast.CompositeLit); !ok {
			return c.expr(u.X), u.X
		}
	}
	if target != nil {
		return c.exprAs(a, target), a
	}
	return c.expr(a), a
}

func (c *fctx) callTerm(call *ast.CallExpr) callOut {
	callee := c.t.staticCallee(c.info, call)
	if callee == nil {
		// a call through a variable of function type (the values are references to top-level functions)
		if sig, ok := c.info.Types[call.Fun].Type.Underlying().(*types.Signature); ok {
			var co callOut
			for i := 0; i < sig.Results().Len(); i++ {
				rt := sig.Results().At(i).Type()
				if isErrorType(rt) {
					co.hasErr = true
				} else {
					co.nres++
					co.resTypes = append(co.resTypes, rt)
				}
			}
			f := c.expr(call.Fun)
			var args []string
			for i, a := range call.Args {
				av, _ := c.argValue(a, sig.Params().At(i).Type())
				args = append(args, av)
			}
			if len(args) == 0 {
				args = []string{"()"}
			}
			co.term = f + " " + strings.Join(args, " ")
			return co
		}
		c.fail(call, "call of a function value")
	}
	sig := callee.Type().(*types.Signature)
	var co callOut
	for i := 0; i < sig.Results().Len(); i++ {
		rt := sig.Results().At(i).Type()
		if isErrorType(rt) {
			co.hasErr = true
		} else {
			co.nres++
			co.resTypes = append(co.resTypes, rt)
		}
	}
	if sig.Variadic() {
		c.fail(call, "variadic call %s", callee.Name())
	}
	var recvExpr ast.Expr
	if sel, ok := call.Fun.(*ast.SelectorExpr); ok && sig.Recv() != nil {
		recvExpr = sel.X
		// promoted method through an embedded field: make the path explicit
		if s, ok := c.info.Selections[sel]; ok && len(s.Index()) > 1 {
			c.fail(call, "method promoted through an embedded field")
		}
	}
	if ci := c.t.fns[callee]; ci != nil {
		if ci.state == 1 {
			c.fail(call, "recursive call of %s", callee.Name())
		}
		c.emitDep(ci)
		if ci.failed != "" {
			c.fail(call, "calls %s, which is not translated", goDisplayName(ci))
		}
		var args []string
		off := 0
		if ci.recv != nil {
			v, lv := c.argValue(recvExpr, nil)
			if ci.nilable[ci.recv] {
				v = c.nilableArg(recvExpr, v)
			}
			args = append(args, v)
			if ci.mutated[ci.recv] {
				co.writeback = append(co.writeback, lv)
			}
			off = 1
		}
		for i, a := range call.Args {
			var v string
			var lv ast.Expr
			if ci.nilable[ci.params[i+off]] && isNilIdent(c.info, a) {
				v, lv = "none", a
			} else {
				v, lv = c.argValue(a, sig.Params().At(i).Type())
				if ci.nilable[ci.params[i+off]] {
					v = c.nilableArg(a, v)
				}
			}
			args = append(args, v)
			if ci.mutated[ci.params[i+off]] {
				co.writeback = append(co.writeback, lv)
			}
		}
		if ci.usesRand {
			if !c.fi.usesRand {
				c.fail(call, "call of %s, which draws random octets (not seen by the pre-pass)", callee.Name())
			}
			co.randFirst = true
			args = append([]string{"rnd_"}, args...)
		}
		for i := len(extGlobalNames(ci)) - 1; i >= 0; i-- {
			g := extGlobalNames(ci)[i]
			if g == leanPkgName(c.fi.pkg) {
				c.fi.usesGlobals = true
				args = append([]string{"G_"}, args...)
			} else {
				c.needExtGlobals(g)
				args = append([]string{"G_" + g}, args...)
			}
		}
		if ci.usesGlobals {
			if ci.pkg != c.fi.pkg {
				c.needExtGlobals(leanPkgName(ci.pkg))
				c.t.usedGen[c.fi.pkg.PkgPath][ci.pkg.PkgPath] = true
				args = append([]string{"G_" + leanPkgName(ci.pkg)}, args...)
			} else {
				c.fi.usesGlobals = true
				args = append([]string{"G_"}, args...)
			}
		}
		if ci.usesPrims {
			c.fi.usesPrims = true
			args = append([]string{"P"}, args...)
		}
		if ci.isInit {
			c.fail(call, "call of init")
		}
		co.term = c.t.qual(c.fi, ci) + " " + strings.Join(args, " ")
		return co
	}
	// interface method of a translated package
	if sig.Recv() != nil {
		if in := derefNamed(sig.Recv().Type()); in != nil {
			if _, ok := in.Underlying().(*types.Interface); ok && in.Obj().Pkg() != nil && c.t.genPkgs[in.Obj().Pkg().Path()] {
				d := c.t.dispatcher(c, in, callee, call)
				v, lv := c.argValue(recvExpr, nil)
				args := []string{v}
				if d.usesPrims {
					c.fi.usesPrims = true
					args = []string{"P", v}
				}
				if d.mutRecv {
					co.writeback = append(co.writeback, lv)
				}
				for i, a := range call.Args {
					av, _ := c.argValue(a, sig.Params().At(i).Type())
					args = append(args, av)
				}
				name := d.lean
				if in.Obj().Pkg().Path() != c.fi.pkg.PkgPath {
					name = "Ike.Gen." + pkgShort(in.Obj().Pkg().Path()) + "." + name
				}
				co.term = name + " " + strings.Join(args, " ")
				return co
			}
		}
	}
	if ex, ok := c.t.extern.Funcs[funcKey(callee)]; ok && (callee.Pkg() == nil || !c.t.genPkgs[callee.Pkg().Path()]) {
		var args []string
		if recvExpr != nil {
			v, lv := c.argValue(recvExpr, nil)
			args = append(args, v)
			if ex.MutatesRecv {
				co.writeback = append(co.writeback, lv)
			}
		}
		for i, a := range call.Args {
			av, _ := c.argValue(a, sig.Params().At(i).Type())
			args = append(args, av)
		}
		if ex.UsesRand {
			if !c.fi.usesRand {
				c.fail(call, "call of %s, which draws random octets (not seen by the pre-pass)", callee.Name())
			}
			co.randFirst = true
			args = append([]string{"rnd_"}, args...)
		}
		if ex.UsesPrims {
			c.fi.usesPrims = true
			args = append([]string{"P"}, args...)
		}
		co.term = ex.Lean + " " + strings.Join(args, " ")
		if ex.Pure {
			co.term = "Res.ok (" + co.term + ")"
		}
		return co
	}
	c.fail(call, "call of %s, which is outside the translated packages", funcKey(callee))
	return co
}

func extGlobalNames(fi *fnInfo) []string {
	var out []string
	for g := range fi.extGlobals {
		out = append(out, g)
	}
	sort.Strings(out)
	return out
}

func (c *fctx) needExtGlobals(g string) {
	if c.fi.extGlobals == nil {
		c.fi.extGlobals = map[string]bool{}
	}
	c.fi.extGlobals[g] = true
}

// bind the call; write mutated arguments back; return result terms (and the error flag, if catchErr)
func (c *fctx) useCall(call *ast.CallExpr, co callOut, catchErr bool) []string {
	n := len(co.writeback) + co.nres
	off := 0
	if co.randFirst {
		n++
		off = 1
	}
	term := co.term
	var r, flag string
	if catchErr && co.hasErr {
		if co.randFirst {
			c.fail(call, "a call that draws random octets whose error is inspected later (the source's state after the failure would be lost)")
		}
		rr := c.bindM("", "Go.catchErr ("+term+")")
		r = rr + ".1"
		flag = rr + ".2"
	} else {
		r = c.bindM("", term)
	}
	if co.randFirst {
		c.letPure("rnd_", "Rand", proj(r, 0, n))
	}
	for i, wb := range co.writeback {
		if _, isCall := ast.Unparen(wb).(*ast.CallExpr); isCall {
			continue // the mutated object is a temporary (the result of another call): nothing can see it afterwards
		}
		c.lvalSet(wb, proj(r, off+i, n))
	}
	var out []string
	for j := 0; j < co.nres; j++ {
		out = append(out, proj(r, off+len(co.writeback)+j, n))
	}
	if catchErr && co.hasErr {
		out = append(out, flag)
	}
	return out
}

type dispInfo struct {
	lean      string
	mutRecv   bool
	usesPrims bool
}

func (t *translator) dispatcher(c *fctx, in *types.Named, m *types.Func, at ast.Node) *dispInfo {
	d, code, err := t.mkDispatcher(in, m, c.emitDep)
	if err != nil {
		c.fail(at, "%v", err)
	}
	if code != "" {
		if in.Obj().Pkg().Path() != c.fi.pkg.PkgPath {
			c.fail(at, "dispatcher of %s.%s was not generated with its package", in.Obj().Name(), m.Name())
		}
		c.fi.aux = append(c.fi.aux, code)
	}
	return d
}

// returns the dispatcher; code != "" when it was generated by this call (the caller places it)
func (t *translator) mkDispatcher(in *types.Named, m *types.Func, emitDep func(*fnInfo)) (*dispInfo, string, error) {
	if t.disp == nil {
		t.disp = map[dispKey]*dispInfo{}
		t.dispErr = map[dispKey]error{}
	}
	key := dispKey{in, m.Name()}
	if d, ok := t.disp[key]; ok {
		if d == nil {
			if e := t.dispErr[key]; e != nil {
				return nil, "", e
			}
			return nil, "", fmt.Errorf("recursion through interface method %s.%s", in.Obj().Name(), m.Name())
		}
		return d, "", nil
	}
	t.disp[key] = nil
	fail := func(format string, a ...interface{}) (*dispInfo, string, error) {
		e := fmt.Errorf(format, a...)
		t.dispErr[key] = e
		return nil, "", e
	}
	sig := m.Type().(*types.Signature)
	var impls []*fnInfo
	mut := false
	for _, impl := range t.ifaceImpl[in] {
		o, _, _ := types.LookupFieldOrMethod(types.NewPointer(impl), true, m.Pkg(), m.Name())
		mf, ok := o.(*types.Func)
		if !ok {
			return fail("no method %s on %s", m.Name(), impl.Obj().Name())
		}
		ci := t.fns[mf]
		if ci == nil {
			return fail("method %s.%s outside the translated packages", impl.Obj().Name(), m.Name())
		}
		if ci.state == 1 {
			return fail("recursion through interface method %s", m.Name())
		}
		emitDep(ci)
		if ci.failed != "" {
			return fail("interface method %s.%s: implementation on %s is not translated (%s)", in.Obj().Name(), m.Name(), impl.Obj().Name(), ci.failed)
		}
		if ci.recv != nil && ci.mutated[ci.recv] {
			mut = true
		}
		impls = append(impls, ci)
	}
	var comps []string
	iname := san(in.Obj().Name())
	if mut {
		comps = append(comps, iname)
	}
	nres := 0
	for i := 0; i < sig.Results().Len(); i++ {
		rt := sig.Results().At(i).Type()
		if !isErrorType(rt) {
			lt, err := t.leanType(rt)
			if err != nil {
				return fail("%v", err)
			}
			comps = append(comps, lt)
			nres++
		}
	}
	var sb strings.Builder
	lean := iname + "." + san(m.Name())
	anyPrims := false
	for _, ci := range impls {
		if ci.usesPrims {
			anyPrims = true
		}
	}
	pdecl := ""
	if anyPrims {
		pdecl = " (P : Prims)"
	}
	fmt.Fprintf(&sb, "/-- dynamic dispatch of `%s.%s` -/\ndef %s%s (self : %s)", in.Obj().Name(), m.Name(), lean, pdecl, iname)
	var argNames []string
	for i := 0; i < sig.Params().Len(); i++ {
		lt, err := t.leanType(sig.Params().At(i).Type())
		if err != nil {
			return fail("%v", err)
		}
		an := fmt.Sprintf("a%d", i+1)
		argNames = append(argNames, an)
		fmt.Fprintf(&sb, " (%s : %s)", an, lt)
	}
	fmt.Fprintf(&sb, " : Res (%s) :=\n  match self with\n  | .nil_ => Res.fault\n", tupleType(comps))
	for k, ci := range impls {
		cname := san(t.ifaceImpl[in][k].Obj().Name())
		callT := ci.leanName + " v " + strings.Join(argNames, " ")
		if ci.usesPrims {
			callT = ci.leanName + " P v " + strings.Join(argNames, " ")
		}
		implMut := ci.recv != nil && ci.mutated[ci.recv]
		nc := nres
		if implMut {
			nc++
		}
		var vals []string
		if mut {
			if implMut {
				vals = append(vals, "(."+cname+" "+proj("r", 0, nc)+")")
			} else {
				vals = append(vals, "(."+cname+" v)")
			}
		}
		for j := 0; j < nres; j++ {
			idx := j
			if implMut {
				idx++
			}
			vals = append(vals, proj("r", idx, nc))
		}
		fmt.Fprintf(&sb, "  | .%s v => (%s) >>= fun r => Res.ok %s\n", cname, strings.TrimSpace(callT), tupleVal(vals))
	}
	d := &dispInfo{lean: lean, mutRecv: mut, usesPrims: anyPrims}
	t.disp[key] = d
	return d, sb.String(), nil
}
