package main

import (
	"fmt"
	"go/ast"
	"go/constant"
	"go/token"
	"go/types"
	"strconv"
	"strings"
)

type trErr struct{ msg string }

type bind struct {
	name, typ, code string
	monadic         bool
}

type loopCtx struct {
	cont      func() string // code for `continue` / end of iteration
	breakCode string
	valueRet  bool // the body can return a value from the function: the loop yields Sum state ret
}

type fctx struct {
	t       *translator
	fi      *fnInfo
	info    *types.Info
	names   map[types.Object]string
	used    map[string]bool
	tmp     int
	binds   []bind
	emitDep func(*fnInfo)
	loops   []*loopCtx
	owned   map[*types.Var]bool // slices created in this function (may be written through)
	retT     string
	retStack []string
	nonNil   map[*types.Var]bool
	inSwitch int
	natVars  map[*types.Var]bool
	switchBreak []string // code for `break` inside the enclosing switch statements
	views    map[*types.Var]viewInfo
	viewBusy map[*types.Var]bool
}

func (c *fctx) fail(n ast.Node, format string, a ...interface{}) {
	panic(trErr{fmt.Sprintf(format, a...) + " at " + c.t.pos(n)})
}

func (c *fctx) fresh(prefix string) string {
	for {
		c.tmp++
		n := fmt.Sprintf("%s%d", prefix, c.tmp)
		if !c.used[n] {
			c.used[n] = true
			return n
		}
	}
}

func (c *fctx) name(o types.Object) string {
	if n, ok := c.names[o]; ok {
		return n
	}
	base := san(o.Name())
	if base == "_" {
		base = "blank"
	}
	n := base
	for i := 2; c.used[n]; i++ {
		n = fmt.Sprintf("%s_%d", base, i)
	}
	c.used[n] = true
	c.names[o] = n
	return n
}

func (c *fctx) ltype(n ast.Node, ty types.Type) string {
	s, err := c.t.leanType(ty)
	if err != nil {
		c.fail(n, "%v", err)
	}
	return s
}

func (c *fctx) zero(n ast.Node, ty types.Type) string {
	s, err := c.t.zero(ty)
	if err != nil {
		c.fail(n, "%v", err)
	}
	return s
}

func (c *fctx) bindM(typ, code string) string {
	n := c.fresh("t")
	c.binds = append(c.binds, bind{n, typ, code, true})
	return n
}

// flush pending binds as a code prefix
func (c *fctx) flush() string {
	var sb strings.Builder
	for _, b := range c.binds {
		if b.monadic {
			fmt.Fprintf(&sb, "(%s) >>= fun %s =>\n", b.code, b.name)
		} else if b.typ != "" {
			fmt.Fprintf(&sb, "let %s : %s := %s;\n", b.name, b.typ, b.code)
		} else {
			fmt.Fprintf(&sb, "let %s := %s;\n", b.name, b.code)
		}
	}
	c.binds = nil
	return sb.String()
}

func intKind(ty types.Type) (types.BasicKind, bool) {
	b, ok := ty.Underlying().(*types.Basic)
	if !ok {
		return 0, false
	}
	switch b.Kind() {
	case types.Uint8, types.Uint16, types.Uint32, types.Uint64, types.Int, types.UntypedInt, types.UntypedRune:
		return b.Kind(), true
	}
	return 0, false
}

func width(k types.BasicKind) int {
	switch k {
	case types.Uint8:
		return 8
	case types.Uint16:
		return 16
	case types.Uint32:
		return 32
	case types.Uint64:
		return 64
	}
	return 0
}

func (c *fctx) constLit(n ast.Node, tv types.TypeAndValue) string {
	switch tv.Value.Kind() {
	case constant.Bool:
		if constant.BoolVal(tv.Value) {
			return "true"
		}
		return "false"
	case constant.String:
		bs := []byte(constant.StringVal(tv.Value))
		parts := make([]string, len(bs))
		for i, b := range bs {
			parts[i] = strconv.Itoa(int(b))
		}
		return "([" + strings.Join(parts, ", ") + "] : Bytes)"
	case constant.Int:
		k, ok := intKind(tv.Type)
		if !ok {
			c.fail(n, "constant of type %s", tv.Type)
		}
		s := tv.Value.ExactString()
		if k == types.UntypedInt || k == types.UntypedRune || k == types.Int {
			if strings.HasPrefix(s, "-") {
				return "(" + s + " : Int)"
			}
			return "(" + s + " : Int)"
		}
		return "(" + s + " : " + c.ltype(n, tv.Type) + ")"
	}
	c.fail(n, "constant kind %v", tv.Value.Kind())
	return ""
}

// expression as an Int (for indices, sizes)
func (c *fctx) toInt(e ast.Expr) string {
	tv := c.info.Types[e]
	if tv.Value != nil && tv.Value.Kind() == constant.Int {
		return "(" + tv.Value.ExactString() + " : Int)"
	}
	k, ok := intKind(tv.Type)
	if !ok {
		c.fail(e, "integer expected, got %s", tv.Type)
	}
	if k == types.Int {
		return c.expr(e)
	}
	return "(" + c.expr(e) + ".toNat : Int)"
}

// Lean name of field f of struct type ty (extern structs have their own field names)
func (c *fctx) fieldName(n ast.Node, ty types.Type, f *types.Var) string {
	if nm := derefNamed(ty); nm != nil && nm.Obj().Pkg() != nil {
		key := nm.Obj().Pkg().Path() + "." + nm.Obj().Name()
		if _, ext := c.t.extern.Types[key]; ext && !c.t.genPkgs[nm.Obj().Pkg().Path()] {
			if m, ok := c.t.extern.Fields[key]; ok {
				if l, ok := m[f.Name()]; ok {
					return l
				}
			}
			c.fail(n, "field %s of %s, which is outside the translated packages", f.Name(), key)
		}
	}
	return san(f.Name())
}

// an expression of type `from` used where `to` is expected: concrete type into interface
func (c *fctx) coerce(n ast.Node, s string, from, to types.Type) string {
	if from == nil || to == nil {
		return s
	}
	in := derefNamed(to)
	if in == nil {
		return s
	}
	if fn := derefNamed(from); fn != nil && fn != in && fn.Obj().Pkg() != nil && in.Obj().Pkg() != nil {
		key := fn.Obj().Pkg().Path() + "." + fn.Obj().Name() + ">" + in.Obj().Pkg().Path() + "." + in.Obj().Name()
		if f, ok := c.t.extern.Coerce[key]; ok && !c.t.genPkgs[in.Obj().Pkg().Path()] {
			return "(" + f + " " + s + ")"
		}
	}
	if _, ok := in.Underlying().(*types.Interface); !ok || len(c.t.ifaceImpl[in]) == 0 {
		return s
	}
	fn := derefNamed(from)
	if fn == nil || fn == in {
		return s
	}
	if _, ok := fn.Underlying().(*types.Interface); ok {
		return s
	}
	for _, impl := range c.t.ifaceImpl[in] {
		if impl == fn {
			return "(" + c.ltype(n, to) + "." + san(fn.Obj().Name()) + " " + s + ")"
		}
	}
	c.fail(n, "value of %s used as %s", from, to)
	return s
}

// expression e used where a value of type target is expected
func (c *fctx) exprAs(e ast.Expr, target types.Type) string {
	if id, ok := e.(*ast.Ident); ok && id.Name == "nil" && c.info.Types[e].IsNil() {
		return c.zero(e, target)
	}
	return c.coerce(e, c.expr(e), c.info.Types[e].Type, target)
}

// pure read of an lvalue-like path (no hoisting); falls back to expr
func (c *fctx) selectorPath(x *ast.SelectorExpr) string {
	sel := c.info.Selections[x]
	base := c.expr(x.X)
	ty := sel.Recv()
	path := base
	idx := sel.Index()
	for _, i := range idx {
		if p, ok := ty.Underlying().(*types.Pointer); ok {
			ty = p.Elem()
		}
		st, ok := ty.Underlying().(*types.Struct)
		if !ok {
			c.fail(x, "selector through non-struct")
		}
		f := st.Field(i)
		path += "." + c.fieldName(x, ty, f)
		ty = f.Type()
	}
	return path
}

func (c *fctx) isPkgIdent(e ast.Expr) (string, bool) {
	id, ok := e.(*ast.Ident)
	if !ok {
		return "", false
	}
	if pn, ok := c.info.Uses[id].(*types.PkgName); ok {
		return pn.Imported().Path(), true
	}
	return "", false
}

func (c *fctx) expr(e ast.Expr) string {
	tv, hasTV := c.info.Types[e]
	if hasTV && tv.Value != nil {
		return c.constLit(e, tv)
	}
	switch x := e.(type) {
	case *ast.ParenExpr:
		return c.expr(x.X)
	case *ast.Ident:
		if x.Name == "nil" {
			if hasTV {
				if _, isNil := tv.Type.(*types.Basic); !isNil {
					return c.zero(e, tv.Type)
				}
			}
			c.fail(e, "untyped nil")
		}
		obj := c.info.Uses[x]
		if obj == nil {
			obj = c.info.Defs[x]
		}
		switch o := obj.(type) {
		case *types.Var:
			if o.Parent() == o.Pkg().Scope() {
				if o.Pkg().Path() != c.t.curPkg || !c.t.globalOK[o] {
					c.fail(e, "package-level variable %s", o.Name())
				}
				c.fi.usesGlobals = true
				return "G_." + san(o.Name())
			}
			if c.natVars[o] {
				return "(" + c.name(o) + " : Int)"
			}
			return c.name(o)
		case *types.Const:
			return c.constLit(e, types.TypeAndValue{Type: o.Type(), Value: o.Val()})
		case *types.Func:
			// a top-level function used as a value
			ci := c.t.fns[o]
			if ci == nil || ci.recv != nil {
				c.fail(e, "function value %s", o.Name())
			}
			if ci.state == 1 {
				c.fail(e, "recursive reference to %s", o.Name())
			}
			c.emitDep(ci)
			if ci.failed != "" {
				c.fail(e, "function value %s, which is not translated", o.Name())
			}
			if ci.usesPrims || ci.usesGlobals || len(ci.extGlobals) > 0 || len(ci.mutated) > 0 {
				c.fail(e, "function value %s with hidden parameters", o.Name())
			}
			return c.t.qual(c.fi, ci)
		}
		c.fail(e, "identifier %s", x.Name)
	case *ast.SelectorExpr:
		if _, ok := c.isPkgIdent(x.X); ok {
			c.fail(e, "package-level object %s", x.Sel.Name)
		}
		sel, ok := c.info.Selections[x]
		if !ok || sel.Kind() != types.FieldVal {
			c.fail(e, "method value")
		}
		return c.selectorPath(x)
	case *ast.StarExpr:
		if pt, ok := c.info.Types[x.X].Type.Underlying().(*types.Pointer); ok {
			if _, ok := pt.Elem().Underlying().(*types.Basic); ok {
				p := c.expr(x.X)
				return c.bindM("", "match "+p+" with | some v => Res.ok v | none => Res.fault")
			}
		}
		return c.expr(x.X)
	case *ast.IndexExpr:
		xt := c.info.Types[x.X].Type
		if _, isMap := xt.Underlying().(*types.Map); isMap {
			return "(Go.mapGet " + c.expr(x.X) + " " + c.expr(x.Index) + ").1"
		}
		sl, ok := xt.Underlying().(*types.Slice)
		if !ok {
			c.fail(e, "index of %s", xt)
		}
		base := c.expr(x.X)
		if nt, ok := c.natTerm(x.Index); ok {
			if c.ltype(e, sl.Elem()) == "UInt8" {
				return c.bindM("", fmt.Sprintf("goIndex %s %s", base, nt))
			}
			return c.bindM("", fmt.Sprintf("Go.indexN %s %s", base, nt))
		}
		idx := c.toInt(x.Index)
		return c.bindM(c.ltype(e, sl.Elem()), fmt.Sprintf("Go.index %s %s", base, idx))
	case *ast.SliceExpr:
		xt := c.info.Types[x.X].Type
		if _, ok := xt.Underlying().(*types.Slice); !ok {
			c.fail(e, "slice of %s", xt)
		}
		if x.Slice3 {
			c.fail(e, "3-index slice")
		}
		base := c.expr(x.X)
		isBytes := c.ltype(e, xt) == "Bytes"
		lowN, lowOk := "0", true
		if x.Low != nil {
			lowOk = c.isNatExpr(x.Low)
		}
		highOk := x.High == nil || c.isNatExpr(x.High)
		if isBytes && lowOk && highOk && (x.Low != nil || x.High != nil) {
			if x.Low != nil {
				lowN, _ = c.natTerm(x.Low)
			}
			if x.High != nil {
				hi, _ := c.natTerm(x.High)
				return c.bindM("", fmt.Sprintf("goSlice %s %s %s", base, lowN, hi))
			}
			return c.bindM("", fmt.Sprintf("goFrom %s %s", base, lowN))
		}
		switch {
		case x.Low != nil && x.High != nil:
			lo := c.toInt(x.Low)
			hi := c.toInt(x.High)
			return c.bindM("", fmt.Sprintf("Go.slice %s %s %s", base, lo, hi))
		case x.Low != nil:
			return c.bindM("", fmt.Sprintf("Go.sliceFrom %s %s", base, c.toInt(x.Low)))
		case x.High != nil:
			return c.bindM("", fmt.Sprintf("Go.sliceTo %s %s", base, c.toInt(x.High)))
		}
		return base
	case *ast.UnaryExpr:
		switch x.Op {
		case token.NOT:
			return "(decide " + c.cond(e) + ")"
		case token.AND:
			if cl, ok := x.X.(*ast.CompositeLit); ok {
				return c.expr(cl)
			}
			c.fail(e, "address-of")
		case token.SUB:
			if k, ok := intKind(tv.Type); ok && k == types.Int {
				return "(-" + c.expr(x.X) + ")"
			}
			return "(0 - " + c.expr(x.X) + ")"
		case token.XOR:
			if k, ok := intKind(tv.Type); ok && width(k) > 0 {
				return "(~~~" + c.expr(x.X) + ")"
			}
		}
		c.fail(e, "unary %s", x.Op)
	case *ast.BinaryExpr:
		return c.binary(x)
	case *ast.CompositeLit:
		return c.composite(x)
	case *ast.CallExpr:
		return c.callExpr(x)
	case *ast.TypeAssertExpr:
		return c.typeAssert(x)
	}
	c.fail(e, "expression %T", e)
	return ""
}

func (c *fctx) typeAssert(x *ast.TypeAssertExpr) string {
	it := derefNamed(c.info.Types[x.X].Type)
	tt := derefNamed(c.info.Types[x.Type].Type)
	if it == nil || tt == nil {
		c.fail(x, "type assertion")
	}
	found := false
	for _, impl := range c.t.ifaceImpl[it] {
		if impl == tt {
			found = true
		}
	}
	if !found {
		c.fail(x, "type assertion to a type outside the interface's closed world")
	}
	v := c.expr(x.X)
	return c.bindM("", fmt.Sprintf("match %s with | .%s v => Res.ok v | _ => Res.fault", v, san(tt.Obj().Name())))
}

func (c *fctx) composite(x *ast.CompositeLit) string {
	ty := c.info.Types[x].Type
	switch u := ty.Underlying().(type) {
	case *types.Struct:
		lt := c.ltype(x, ty)
		if len(x.Elts) == 0 {
			return c.zero(x, ty)
		}
		var fs []string
		for _, el := range x.Elts {
			kv, ok := el.(*ast.KeyValueExpr)
			if !ok {
				c.fail(x, "positional struct literal")
			}
			fname := kv.Key.(*ast.Ident).Name
			var fv *types.Var
			for i := 0; i < u.NumFields(); i++ {
				if u.Field(i).Name() == fname {
					fv = u.Field(i)
				}
			}
			v := c.exprAs(kv.Value, fv.Type())
			fs = append(fs, c.fieldName(x, ty, fv)+" := "+v)
		}
		return "{ " + c.zero(x, ty) + " with " + strings.Join(fs, ", ") + " : " + lt + " }"
	case *types.Map:
		if len(x.Elts) != 0 {
			c.fail(x, "non-empty map literal")
		}
		return "(some [] : " + c.ltype(x, ty) + ")"
	case *types.Slice:
		var es []string
		for _, el := range x.Elts {
			if _, ok := el.(*ast.KeyValueExpr); ok {
				c.fail(x, "keyed slice literal")
			}
			es = append(es, c.exprAs(el, u.Elem()))
		}
		et := c.ltype(x, u.Elem())
		return "([" + strings.Join(es, ", ") + "] : List " + et + ")"
	}
	c.fail(x, "composite literal of %s", ty)
	return ""
}

func (c *fctx) binary(x *ast.BinaryExpr) string {
	switch x.Op {
	case token.LAND, token.LOR, token.EQL, token.NEQ, token.LSS, token.LEQ, token.GTR, token.GEQ:
		return "(decide " + c.cond(x) + ")"
	}
	rt := c.info.Types[x].Type
	if b, isB := rt.Underlying().(*types.Basic); isB && b.Info()&types.IsString != 0 && x.Op == token.ADD {
		return "(" + c.expr(x.X) + " ++ " + c.expr(x.Y) + ")"
	}
	k, ok := intKind(rt)
	if !ok {
		c.fail(x, "binary %s on %s", x.Op, rt)
	}
	if x.Op == token.SHL || x.Op == token.SHR {
		stv := c.info.Types[x.Y]
		if stv.Value == nil {
			c.fail(x, "shift by a non-constant")
		}
		n, _ := constant.Int64Val(stv.Value)
		l := c.expr(x.X)
		if k == types.Int {
			if x.Op == token.SHL {
				return fmt.Sprintf("(%s * %d)", l, int64(1)<<uint(n))
			}
			return fmt.Sprintf("(%s / %d)", l, int64(1)<<uint(n))
		}
		if int(n) >= width(k) {
			return "(0 : " + c.ltype(x, rt) + ")"
		}
		op := "<<<"
		if x.Op == token.SHR {
			op = ">>>"
		}
		return fmt.Sprintf("(%s %s %d)", l, op, n)
	}
	if k == types.Int && (x.Op == token.QUO || x.Op == token.REM) && c.isNonneg(x) {
		nt, _ := c.natTerm(x)
		return "(" + nt + " : Int)"
	}
	l := c.expr(x.X)
	r := c.expr(x.Y)
	var op string
	switch x.Op {
	case token.ADD:
		op = "+"
	case token.SUB:
		op = "-"
	case token.MUL:
		op = "*"
	case token.AND:
		op = "&&&"
	case token.OR:
		op = "|||"
	case token.XOR:
		op = "^^^"
	case token.QUO, token.REM:
		dv := c.info.Types[x.Y]
		if dv.Value == nil || constant.Sign(dv.Value) == 0 {
			if k != types.Int {
				c.fail(x, "division of %s by a non-constant", rt)
			}
			fn := "Go.idiv"
			if x.Op == token.REM {
				fn = "Go.imod"
			}
			return c.bindM("", fn+" "+l+" "+r)
		}
		if k == types.Int {
			// Go truncates toward zero
			if x.Op == token.QUO {
				return fmt.Sprintf("(Int.tdiv %s %s)", l, r)
			}
			return fmt.Sprintf("(Int.tmod %s %s)", l, r)
		}
		if x.Op == token.QUO {
			op = "/"
		} else {
			op = "%"
		}
	default:
		c.fail(x, "binary %s", x.Op)
	}
	if k == types.Int && (op == "&&&" || op == "|||" || op == "^^^") {
		c.fail(x, "bit operation on int")
	}
	return "(" + l + " " + op + " " + r + ")"
}

// boolean expression as a Lean Prop (decidable)
func (c *fctx) cond(e ast.Expr) string {
	switch x := e.(type) {
	case *ast.ParenExpr:
		return c.cond(x.X)
	case *ast.UnaryExpr:
		if x.Op == token.NOT {
			return "(¬ " + c.cond(x.X) + ")"
		}
	case *ast.BinaryExpr:
		switch x.Op {
		case token.LAND, token.LOR:
			l := c.cond(x.X)
			nb := len(c.binds)
			r := c.cond(x.Y)
			if len(c.binds) != nb {
				c.fail(e, "right operand of %s can panic (short-circuit evaluation is not translated)", x.Op)
			}
			if x.Op == token.LAND {
				return "(" + l + " ∧ " + r + ")"
			}
			return "(" + l + " ∨ " + r + ")"
		case token.EQL, token.NEQ:
			lt := c.info.Types[x.X].Type
			rtv := c.info.Types[x.Y]
			isNil := func(a ast.Expr) bool { id, ok := a.(*ast.Ident); return ok && id.Name == "nil" && c.info.Types[a].IsNil() }
			if isNil(x.Y) || isNil(x.X) {
				other := x.X
				if isNil(x.X) {
					other = x.Y
					lt = rtv.Type
				}
				if isErrorType(lt) {
					v := c.expr(other)
					if c.t.errEnum {
						if x.Op == token.NEQ {
							return "(" + v + " ≠ Go.Err.none)"
						}
						return "(" + v + " = Go.Err.none)"
					}
					if x.Op == token.NEQ {
						return "(" + v + " = true)"
					}
					return "(" + v + " = false)"
				}
				if _, isMap := lt.Underlying().(*types.Map); isMap {
					v := c.expr(other)
					if x.Op == token.NEQ {
						return "(" + v + " ≠ none)"
					}
					return "(" + v + " = none)"
				}
				if _, isSlice := lt.Underlying().(*types.Slice); isSlice {
					// nil and empty slices are one value in the model (a function whose behaviour depends on the
					// difference shows up in the gendriver correspondence)
					c.fi.notes = appendOnce(c.fi.notes, "a slice is compared with nil: nil and empty slices are identified")
					v := c.expr(other)
					if x.Op == token.NEQ {
						return "(" + v + " ≠ [])"
					}
					return "(" + v + " = [])"
				}
				if in := derefNamed(lt); in != nil {
					if _, ok := in.Underlying().(*types.Interface); ok && len(c.t.ifaceImpl[in]) > 0 {
						v := c.expr(other)
						if x.Op == token.NEQ {
							return "(" + v + " ≠ .nil_)"
						}
						return "(" + v + " = .nil_)"
					}
				}
				if v, _ := nilCompared(c.info, x, c.fi.nilable); v != nil {
					if x.Op == token.NEQ {
						return "(" + c.name(v) + "_isnil = false)"
					}
					return "(" + c.name(v) + "_isnil = true)"
				}
				if nm := derefNamed(lt); nm != nil && nm.Obj().Pkg() != nil {
					key := nm.Obj().Pkg().Path() + "." + nm.Obj().Name()
					if key == "hash.Hash" {
						v := c.expr(other)
						if x.Op == token.NEQ {
							return "(Go.Mac.isNil " + v + " = false)"
						}
						return "(Go.Mac.isNil " + v + " = true)"
					}
					if f, ok := c.t.extern.NilTest[key]; ok && !c.t.genPkgs[nm.Obj().Pkg().Path()] {
						v := "(" + fmt.Sprintf(f, c.expr(other)) + ")"
						if x.Op == token.NEQ {
							return "(" + v + " = false)"
						}
						return "(" + v + " = true)"
					}
				}
				if pt, ok := lt.Underlying().(*types.Pointer); ok {
					if _, ok := pt.Elem().Underlying().(*types.Basic); ok {
						v := c.expr(other)
						if x.Op == token.NEQ {
							return "(" + v + " ≠ none)"
						}
						return "(" + v + " = none)"
					}
				}
				c.fail(e, "comparison of %s with nil", lt)
			}
			if isErrorType(lt) && c.t.errEnum {
				if ev, ok := c.errConst(x.Y); ok {
					v := c.expr(x.X)
					if x.Op == token.EQL {
						return "(" + v + " = " + ev + ")"
					}
					return "(" + v + " ≠ " + ev + ")"
				}
			}
			if _, ok := lt.Underlying().(*types.Basic); !ok {
				c.fail(e, "comparison of %s", lt)
			}
			var l, r string
			if c.bothNatInts(x.X, x.Y) {
				l, _ = c.natTerm(x.X)
				r, _ = c.natTerm(x.Y)
			} else {
				l = c.expr(x.X)
				r = c.expr(x.Y)
			}
			if x.Op == token.EQL {
				return "(" + l + " = " + r + ")"
			}
			return "(" + l + " ≠ " + r + ")"
		case token.LSS, token.LEQ, token.GTR, token.GEQ:
			if _, ok := intKind(c.info.Types[x.X].Type); !ok {
				c.fail(e, "ordering of %s", c.info.Types[x.X].Type)
			}
			var l, r string
			if c.bothNatInts(x.X, x.Y) {
				l, _ = c.natTerm(x.X)
				r, _ = c.natTerm(x.Y)
			} else {
				l = c.expr(x.X)
				r = c.expr(x.Y)
			}
			op := map[token.Token]string{token.LSS: "<", token.LEQ: "≤", token.GTR: ">", token.GEQ: "≥"}[x.Op]
			return "(" + l + " " + op + " " + r + ")"
		}
	}
	tv := c.info.Types[e]
	if tv.Value != nil && tv.Value.Kind() == constant.Bool {
		if constant.BoolVal(tv.Value) {
			return "True"
		}
		return "False"
	}
	if b, ok := tv.Type.Underlying().(*types.Basic); ok && b.Info()&types.IsBoolean != 0 {
		return "(" + c.expr(e) + " = true)"
	}
	c.fail(e, "condition %T", e)
	return ""
}

func (c *fctx) conversion(call *ast.CallExpr, to types.Type) string {
	arg := call.Args[0]
	from := c.info.Types[arg].Type
	fk, fok := intKind(from)
	tk, tok := intKind(to)
	if fok && tok {
		s := c.expr(arg)
		if fk == tk {
			return s
		}
		if fk == types.Int && c.isNonneg(arg) {
			nt, _ := c.natTerm(arg)
			return "(" + c.ltype(call, to) + ".ofNat " + nt + ")"
		}
		if fk == types.Int {
			switch tk {
			case types.Uint8:
				return "(Go.toU8 " + s + ")"
			case types.Uint16:
				return "(Go.toU16 " + s + ")"
			case types.Uint32:
				return "(Go.toU32 " + s + ")"
			case types.Uint64:
				return "(Go.toU64 " + s + ")"
			}
		}
		if tk == types.Int {
			return "(" + s + ".toNat : Int)"
		}
		return "(" + s + ".to" + c.ltype(call, to) + ")"
	}
	ft, e1 := c.t.leanType(from)
	tt, e2 := c.t.leanType(to)
	if e1 == nil && e2 == nil && ft == tt {
		return c.expr(arg)
	}
	if e1 == nil && e2 == nil && ((ft == "Bytes" && tt == "(List UInt8)") || (tt == "Bytes" && ft == "(List UInt8)")) {
		return c.expr(arg)
	}
	c.fail(call, "conversion from %s to %s", from, to)
	return ""
}

func (c *fctx) callExpr(call *ast.CallExpr) string {
	// conversion?
	if tv, ok := c.info.Types[call.Fun]; ok && tv.IsType() {
		return c.conversion(call, tv.Type)
	}
	if id, ok := call.Fun.(*ast.Ident); ok {
		if b, ok := c.info.Uses[id].(*types.Builtin); ok {
			switch b.Name() {
			case "len":
				at := c.info.Types[call.Args[0]].Type
				if _, ok := at.Underlying().(*types.Map); ok {
					return "(Go.mapLen " + c.expr(call.Args[0]) + " : Int)"
				}
				if b, ok := at.Underlying().(*types.Basic); ok && b.Info()&types.IsString != 0 {
					return "(" + c.expr(call.Args[0]) + ".length : Int)"
				}
				if _, ok := at.Underlying().(*types.Slice); !ok {
					c.fail(call, "len of %s", at)
				}
				return "(" + c.expr(call.Args[0]) + ".length : Int)"
			case "append":
				base := c.expr(call.Args[0])
				if call.Ellipsis.IsValid() {
					return "(" + base + " ++ " + c.expr(call.Args[1]) + ")"
				}
				var es []string
				st, _ := c.info.Types[call.Args[0]].Type.Underlying().(*types.Slice)
				for _, a := range call.Args[1:] {
					if st != nil {
						es = append(es, c.exprAs(a, st.Elem()))
					} else {
						es = append(es, c.expr(a))
					}
				}
				return "(" + base + " ++ [" + strings.Join(es, ", ") + "])"
			case "new":
				return c.zero(call, c.info.Types[call.Args[0]].Type)
			case "make":
				ty := c.info.Types[call.Args[0]].Type
				if _, isMap := ty.Underlying().(*types.Map); isMap {
					return "(some [] : " + c.ltype(call, ty) + ")"
				}
				sl, ok := ty.Underlying().(*types.Slice)
				if !ok || len(call.Args) < 2 {
					c.fail(call, "make of %s", ty)
				}
				et := c.ltype(call, sl.Elem())
				stv := c.info.Types[call.Args[1]]
				if stv.Value != nil && constant.Sign(stv.Value) >= 0 {
					if et == "UInt8" {
						return "(zeros " + stv.Value.ExactString() + ")"
					}
					return "(List.replicate " + stv.Value.ExactString() + " " + c.zero(call, sl.Elem()) + ")"
				}
				if nt, ok := c.natTerm(call.Args[1]); ok {
					if et == "UInt8" {
						return "(zeros " + nt + ")"
					}
					return "(List.replicate " + nt + " " + c.zero(call, sl.Elem()) + ")"
				}
				n := c.toInt(call.Args[1])
				return c.bindM("", fmt.Sprintf("Go.make (α := %s) %s", et, n))
			}
			c.fail(call, "builtin %s", b.Name())
		}
	}
	// binary.BigEndian.UintN
	if sel, ok := call.Fun.(*ast.SelectorExpr); ok {
		if inner, ok := sel.X.(*ast.SelectorExpr); ok {
			if p, ok := c.isPkgIdent(inner.X); ok && p == "encoding/binary" && inner.Sel.Name == "BigEndian" {
				switch sel.Sel.Name {
				case "Uint16", "Uint32", "Uint64":
					if se, ok := call.Args[0].(*ast.SliceExpr); ok && !se.Slice3 && se.High != nil && (se.Low == nil || c.isNatExpr(se.Low)) && c.isNatExpr(se.High) {
						if c.ltype(se, c.info.Types[se.X].Type) == "Bytes" {
							b := c.expr(se.X)
							lo := "0"
							if se.Low != nil {
								lo, _ = c.natTerm(se.Low)
							}
							hi, _ := c.natTerm(se.High)
							return c.bindM("", fmt.Sprintf("Go.u%sAt %s %s %s", strings.TrimPrefix(sel.Sel.Name, "Uint"), b, lo, hi))
						}
					}
					a := c.expr(call.Args[0])
					return c.bindM("", "Go.beU"+strings.TrimPrefix(sel.Sel.Name, "Uint")+" "+a)
				}
				c.fail(call, "binary.BigEndian.%s in expression position", sel.Sel.Name)
			}
		}
	}
	if s, ok := c.specialCallExpr(call); ok {
		return s
	}
	co := c.callTerm(call)
	if co.hasErr {
		c.fail(call, "call with an error result in expression position")
	}
	if co.nres != 1 {
		c.fail(call, "call with %d results in expression position", co.nres)
	}
	res := c.useCall(call, co, false)
	return res[0]
}

// is e (an index / bound) expressible as a Nat term?
func (c *fctx) isNatExpr(e ast.Expr) bool {
	tv := c.info.Types[e]
	if tv.Value != nil {
		return tv.Value.Kind() == constant.Int && constant.Sign(tv.Value) >= 0
	}
	if k, ok := intKind(tv.Type); ok && width(k) > 0 {
		return true
	}
	return c.isNonneg(e)
}

// both operands are Go ints and non-negative: compare as Nat
func (c *fctx) bothNatInts(a, b ast.Expr) bool {
	ta, tb := c.info.Types[a].Type, c.info.Types[b].Type
	if !isGoInt(ta) || !isGoInt(tb) {
		return false
	}
	return c.isNatExpr(a) && c.isNatExpr(b)
}

// io.EOF / io.ErrUnexpectedEOF
func (c *fctx) errConst(e ast.Expr) (string, bool) {
	sel, ok := e.(*ast.SelectorExpr)
	if !ok {
		return "", false
	}
	if p, ok := c.isPkgIdent(sel.X); ok && p == "io" {
		switch sel.Sel.Name {
		case "EOF":
			return "Go.Err.eof", true
		case "ErrUnexpectedEOF":
			return "Go.Err.unexpectedEof", true
		}
	}
	return "", false
}

// does the function compare error values with each other (err == io.EOF)?
func usesErrIdentity(info *types.Info, body ast.Node) bool {
	found := false
	ast.Inspect(body, func(n ast.Node) bool {
		if be, ok := n.(*ast.BinaryExpr); ok && (be.Op == token.EQL || be.Op == token.NEQ) {
			if isErrorType(info.Types[be.X].Type) {
				if id, ok := be.Y.(*ast.Ident); !ok || id.Name != "nil" {
					found = true
				}
			}
		}
		return !found
	})
	return found
}

func appendOnce(l []string, s string) []string {
	for _, x := range l {
		if x == s {
			return l
		}
	}
	return append(l, s)
}
