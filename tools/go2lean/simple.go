package main

import (
	"fmt"
	"go/ast"
	"go/token"
	"go/types"
	"strings"
)

func (c *fctx) letPure(name, typ, code string) {
	c.binds = append(c.binds, bind{name, typ, code, false})
}

// assign `val` (a Lean term) to the Go lvalue e
func (c *fctx) lvalSet(e ast.Expr, val string) {
	switch x := e.(type) {
	case *ast.ParenExpr:
		c.lvalSet(x.X, val)
	case *ast.Ident:
		if x.Name == "_" {
			return
		}
		v := c.localVar(x)
		if v == nil {
			if gv, ok := c.info.Uses[x].(*types.Var); ok && gv.Pkg() != nil && gv.Parent() == gv.Pkg().Scope() && c.t.globalOK[gv] && c.fi.isInit {
				c.fi.usesGlobals = true
				c.letPure("G_", "Globals", "{ G_ with "+san(gv.Name())+" := "+val+" }")
				return
			}
			c.fail(e, "assignment to %s", x.Name)
		}
		c.letPure(c.name(v), c.vtype(e, v), val)
		// a pointer that aliases part of another object (x := y.F / y.(*T)): writes through it are writes to that object
		if vw, ok := c.views[v]; ok && !c.viewBusy[v] {
			if c.viewBusy == nil {
				c.viewBusy = map[*types.Var]bool{}
			}
			c.viewBusy[v] = true
			if vw.custom != nil {
				vw.custom(c.name(v))
			} else {
				c.lvalSet(vw.src, fmt.Sprintf(vw.wrap, c.name(v)))
			}
			c.viewBusy[v] = false
		}
	case *ast.StarExpr:
		c.lvalSet(x.X, val)
	case *ast.SelectorExpr:
		sel, ok := c.info.Selections[x]
		if !ok || sel.Kind() != types.FieldVal {
			c.fail(e, "assignment to a non-field selector")
		}
		// explicit path through embedded fields
		baseExpr := x.X
		ty := sel.Recv()
		idx := sel.Index()
		var fields []string
		for _, i := range idx {
			if p, ok := ty.Underlying().(*types.Pointer); ok {
				ty = p.Elem()
			}
			st := ty.Underlying().(*types.Struct)
			fields = append(fields, c.fieldName(e, ty, st.Field(i)))
			ty = st.Field(i).Type()
		}
		if bid, ok := ast.Unparen(baseExpr).(*ast.Ident); ok {
			if bv := c.localVar(bid); bv != nil {
				if vw, ok := c.views[bv]; ok && vw.refresh != nil && !c.viewBusy[bv] {
					vw.refresh()
				}
			}
		}
		base := c.expr(baseExpr)
		// { base with f1 := { base.f1 with f2 := val } }
		paths := []string{base}
		for _, f := range fields[:len(fields)-1] {
			paths = append(paths, paths[len(paths)-1]+"."+f)
		}
		term := val
		for i := len(fields) - 1; i >= 0; i-- {
			term = "{ " + paths[i] + " with " + fields[i] + " := " + term + " }"
		}
		c.lvalSet(baseExpr, term)
	case *ast.IndexExpr:
		if _, isMap := c.info.Types[x.X].Type.Underlying().(*types.Map); isMap {
			t := c.bindM("", fmt.Sprintf("Go.mapSet %s %s %s", c.expr(x.X), c.expr(x.Index), val))
			c.lvalSet(x.X, t)
			return
		}
		c.requireOwned(x.X)
		base := c.expr(x.X)
		var t string
		if nt, ok := c.natTerm(x.Index); ok {
			t = c.bindM("", fmt.Sprintf("Go.setN %s %s %s", base, nt, val))
		} else {
			idx := c.toInt(x.Index)
			t = c.bindM("", fmt.Sprintf("Go.set %s %s %s", base, idx, val))
		}
		c.lvalSet(x.X, t)
	default:
		c.fail(e, "assignment to %T", e)
	}
}

// a slice that is written through must have been created in this function (value semantics)
func (c *fctx) requireOwned(e ast.Expr) {
	v := rootVar(c.info, e)
	if v == nil {
		c.fail(e, "write through an expression that is not a variable path")
	}
	if id, ok := e.(*ast.Ident); ok && c.localVar(id) == v {
		if !c.sliceOwned(v) {
			c.fail(e, "write through slice %s, which was not created by make/append/literal in this function", v.Name())
		}
		return
	}
	// a field path of a struct value held by value: fresh memory only if this function made it
	if c.fieldMadeHere(e) {
		return
	}
	c.fail(e, "write through a slice reached by a field path")
}

func (c *fctx) sliceOwned(v *types.Var) bool {
	if r, ok := c.owned[v]; ok {
		return r
	}
	for _, p := range c.fi.params {
		if p == v {
			c.owned[v] = false
			return false
		}
	}
	ok := true
	fresh := func(e ast.Expr) bool {
		switch x := e.(type) {
		case *ast.CompositeLit:
			return true
		case *ast.SliceExpr:
			// a reslice of the variable itself stays within the memory this function created
			if id, isId := x.X.(*ast.Ident); isId && c.localVar(id) == v {
				return true
			}
			return false
		case *ast.CallExpr:
			if id, isId := x.Fun.(*ast.Ident); isId {
				if b, isB := c.info.Uses[id].(*types.Builtin); isB {
					switch b.Name() {
					case "make":
						return true
					case "append":
						if rv := rootVar(c.info, x.Args[0]); rv == v {
							if _, isIdent := x.Args[0].(*ast.Ident); isIdent {
								return true
							}
						}
						return false
					}
				}
			}
			return false
		}
		return false
	}
	ast.Inspect(c.fi.decl.Body, func(n ast.Node) bool {
		switch s := n.(type) {
		case *ast.AssignStmt:
			for i, l := range s.Lhs {
				id, isId := l.(*ast.Ident)
				if !isId || c.localVar(id) != v {
					continue
				}
				if len(s.Rhs) != len(s.Lhs) {
					ok = false
					continue
				}
				if !fresh(s.Rhs[i]) {
					ok = false
				}
			}
		case *ast.ValueSpec:
			for i, id := range s.Names {
				if c.info.Defs[id] == v && i < len(s.Values) && !fresh(s.Values[i]) {
					ok = false
				}
			}
		case *ast.RangeStmt:
			if id, isId := s.Value.(*ast.Ident); isId && c.info.Defs[id] == v {
				ok = false
			}
		}
		return true
	})
	c.owned[v] = ok
	return ok
}

// x, err := f(..) / err = f(..) / x := f(..):  catchErr=false binds monadically (an error return aborts)
func (c *fctx) assignCall(s *ast.AssignStmt, call *ast.CallExpr, catchErr bool) {
	co := c.callTerm(call)
	want := co.nres
	if co.hasErr {
		want++
	}
	if len(s.Lhs) != want {
		c.fail(s, "assignment count mismatch")
	}
	res := c.useCall(call, co, catchErr)
	for i := 0; i < co.nres; i++ {
		if id, ok := s.Lhs[i].(*ast.Ident); ok {
			if v := c.localVar(id); v != nil {
				delete(c.views, v)
			}
		}
		c.lvalSet(s.Lhs[i], c.coerce(s, res[i], co.resTypes[i], c.lhsType(s.Lhs[i])))
	}
	c.storedLastView(s, call)
	if co.hasErr {
		if catchErr {
			if c.t.errEnum {
				c.lvalSet(s.Lhs[len(s.Lhs)-1], "(Go.Err.ofBool "+res[len(res)-1]+")")
			} else {
				c.lvalSet(s.Lhs[len(s.Lhs)-1], res[len(res)-1])
			}
		} else {
			c.lvalSet(s.Lhs[len(s.Lhs)-1], c.errNone())
		}
	}
}

func (c *fctx) arith(n ast.Node, op token.Token, l, r string, ty types.Type) string {
	k, ok := intKind(ty)
	if !ok {
		c.fail(n, "arithmetic on %s", ty)
	}
	var o string
	switch op {
	case token.ADD:
		o = "+"
	case token.SUB:
		o = "-"
	case token.MUL:
		o = "*"
	case token.AND:
		o = "&&&"
	case token.OR:
		o = "|||"
	case token.XOR:
		o = "^^^"
	default:
		c.fail(n, "operator %s", op)
	}
	if k == types.Int && (o == "&&&" || o == "|||" || o == "^^^") {
		c.fail(n, "bit operation on int")
	}
	return "(" + l + " " + o + " " + r + ")"
}

func (c *fctx) simple(s ast.Stmt) {
	// a view of an element of a container is re-read from the container before a statement that mentions it
	if len(c.views) > 0 {
		done := map[*types.Var]bool{}
		ast.Inspect(s, func(n ast.Node) bool {
			if id, ok := n.(*ast.Ident); ok {
				if v, ok := c.info.Uses[id].(*types.Var); ok && !done[v] {
					if vw, ok := c.views[v]; ok && vw.refresh != nil {
						done[v] = true
						vw.refresh()
					}
				}
			}
			return true
		})
	}
	switch s := s.(type) {
	case *ast.ExprStmt:
		call, ok := s.X.(*ast.CallExpr)
		if !ok {
			c.fail(s, "expression statement")
		}
		c.callStmt(call)
	case *ast.IncDecStmt:
		ty := c.info.Types[s.X].Type
		if v := c.natVarOf(s.X); v != nil {
			c.lvalSet(s.X, "("+c.name(v)+" + 1)")
			return
		}
		one := "(1 : " + c.ltype(s, ty) + ")"
		op := token.ADD
		if s.Tok == token.DEC {
			op = token.SUB
		}
		c.lvalSet(s.X, c.arith(s, op, c.expr(s.X), one, ty))
	case *ast.DeclStmt:
		gd, ok := s.Decl.(*ast.GenDecl)
		if !ok || gd.Tok != token.VAR {
			if ok && gd.Tok == token.CONST {
				return
			}
			c.fail(s, "declaration")
		}
		for _, sp := range gd.Specs {
			vs := sp.(*ast.ValueSpec)
			for i, id := range vs.Names {
				v, _ := c.info.Defs[id].(*types.Var)
				if v == nil {
					continue
				}
				if i < len(vs.Values) {
					if c.natVars[v] {
						nt, _ := c.natTerm(vs.Values[i])
						c.letPure(c.name(v), "Nat", nt)
					} else {
						c.letPure(c.name(v), c.ltype(s, v.Type()), c.rhs(vs.Values[i], v.Type()))
					}
				} else if len(vs.Values) == 0 {
					if c.natVars[v] {
						c.letPure(c.name(v), "Nat", "0")
					} else {
						c.letPure(c.name(v), c.ltype(s, v.Type()), c.zero(s, v.Type()))
					}
				} else {
					c.fail(s, "var with a multi-valued initialiser")
				}
			}
		}
	case *ast.AssignStmt:
		c.assign(s)
	default:
		c.fail(s, "statement %T", s)
	}
}

func (c *fctx) rhs(e ast.Expr, target types.Type) string {
	if id, ok := e.(*ast.Ident); ok && id.Name == "nil" && c.info.Types[e].IsNil() {
		return c.zero(e, target)
	}
	if isErrorType(target) {
		if call, ok := e.(*ast.CallExpr); ok && c.errorCtor(call) {
			if c.isNonNilError(call) {
				return c.errOther()
			}
			// Wrap(err, …): non-nil iff err is
			if c.t.errEnum {
				return "(if " + c.expr(call.Args[0]) + " = Go.Err.none then Go.Err.none else Go.Err.other)"
			}
			return c.expr(call.Args[0])
		}
	}
	return c.exprAs(e, target)
}

func (c *fctx) assign(s *ast.AssignStmt) {
	switch s.Tok {
	case token.DEFINE, token.ASSIGN:
		if c.specialAssign(s) {
			return
		}
		if len(s.Rhs) == 1 && len(s.Lhs) >= 1 {
			if call, ok := s.Rhs[0].(*ast.CallExpr); ok {
				if tv := c.info.Types[call.Fun]; !tv.IsType() && !c.isBuiltinOrBinary(call) && !c.isSpecialCall(call) && !(isErrorType(c.info.Types[s.Lhs[0]].Type) && c.errorCtor(call)) {
					c.assignCall(s, call, true)
					return
				}
			}
		}
		if len(s.Lhs) != len(s.Rhs) {
			c.fail(s, "multi-value assignment")
		}
		if len(s.Lhs) == 1 {
			if id, ok := s.Lhs[0].(*ast.Ident); ok {
				if v := c.localVar(id); v != nil {
					delete(c.views, v) // the variable is re-bound: it no longer aliases what it aliased
				}
			}
			c.lvalSet(s.Lhs[0], c.rhsFor(s.Lhs[0], s.Rhs[0]))
			c.recordView(s.Lhs[0], s.Rhs[0])
			return
		}
		var vals []string
		for i := range s.Rhs {
			t := c.fresh("a")
			c.letPure(t, "", c.rhsFor(s.Lhs[i], s.Rhs[i]))
			vals = append(vals, t)
		}
		for i := range s.Lhs {
			c.lvalSet(s.Lhs[i], vals[i])
		}
	default:
		op := map[token.Token]token.Token{token.ADD_ASSIGN: token.ADD, token.SUB_ASSIGN: token.SUB, token.MUL_ASSIGN: token.MUL,
			token.AND_ASSIGN: token.AND, token.OR_ASSIGN: token.OR, token.XOR_ASSIGN: token.XOR}[s.Tok]
		if op == 0 || len(s.Lhs) != 1 {
			c.fail(s, "assignment operator %s", s.Tok)
		}
		ty := c.info.Types[s.Lhs[0]].Type
		if v := c.natVarOf(s.Lhs[0]); v != nil {
			nt, _ := c.natTerm(s.Rhs[0])
			o := "+"
			if op == token.MUL {
				o = "*"
			}
			c.lvalSet(s.Lhs[0], "("+c.name(v)+" "+o+" "+nt+")")
			return
		}
		c.lvalSet(s.Lhs[0], c.arith(s, op, c.expr(s.Lhs[0]), c.expr(s.Rhs[0]), ty))
	}
}

func (c *fctx) natVarOf(e ast.Expr) *types.Var {
	if id, ok := e.(*ast.Ident); ok {
		if v := c.localVar(id); v != nil && c.natVars[v] {
			return v
		}
	}
	return nil
}

func (c *fctx) rhsFor(lhs, e ast.Expr) string {
	if v := c.natVarOf(lhs); v != nil {
		nt, ok := c.natTerm(e)
		if !ok {
			c.fail(e, "non-negative expression expected")
		}
		return nt
	}
	return c.rhs(e, c.lhsType(lhs))
}

func (c *fctx) lhsType(e ast.Expr) types.Type {
	if id, ok := e.(*ast.Ident); ok {
		if id.Name == "_" {
			return types.Typ[types.Invalid]
		}
		return c.typeOfIdent(id)
	}
	return c.info.Types[e].Type
}

func (c *fctx) isBuiltinOrBinary(call *ast.CallExpr) bool {
	if id, ok := call.Fun.(*ast.Ident); ok {
		if _, ok := c.info.Uses[id].(*types.Builtin); ok {
			return true
		}
	}
	if sel, ok := call.Fun.(*ast.SelectorExpr); ok {
		if inner, ok := sel.X.(*ast.SelectorExpr); ok {
			if p, ok := c.isPkgIdent(inner.X); ok && p == "encoding/binary" {
				return true
			}
		}
	}
	return false
}

// window of a writer call's destination:  x  |  x[lo:hi]  |  x[lo:]  |  x[:hi]
func (c *fctx) window(dst ast.Expr) (base ast.Expr, lo, hi string) {
	if se, ok := dst.(*ast.SliceExpr); ok && !se.Slice3 {
		b := c.expr(se.X)
		lo = "0"
		hi = b + ".length"
		if se.Low != nil {
			nt, ok := c.natTerm(se.Low)
			if !ok {
				c.fail(dst, "window bound that may be negative")
			}
			lo = nt
		}
		if se.High != nil {
			nt, ok := c.natTerm(se.High)
			if !ok {
				c.fail(dst, "window bound that may be negative")
			}
			hi = nt
		}
		return se.X, lo, hi
	}
	b := c.expr(dst)
	return dst, "0", b + ".length"
}

func (c *fctx) callStmt(call *ast.CallExpr) {
	if c.specialCallStmt(call) {
		return
	}
	if w := c.writerCall(call); w != "" {
		base, lo, hi := c.window(call.Args[0])
		c.requireOwned(base)
		b := c.expr(base)
		if w == "copy" {
			src := c.expr(call.Args[1])
			t := c.bindM("", fmt.Sprintf("Go.copyInto %s %s %s %s", b, lo, hi, src))
			c.lvalSet(base, t+".1")
			return
		}
		v := c.expr(call.Args[1])
		t := c.bindM("", fmt.Sprintf("Go.putU%s %s %s %s %s", strings.TrimPrefix(w, "PutUint"), b, lo, hi, v))
		c.lvalSet(base, t)
		return
	}
	if sel, ok := call.Fun.(*ast.SelectorExpr); ok {
		if p, ok := c.isPkgIdent(sel.X); ok && (p == "fmt" && strings.HasPrefix(sel.Sel.Name, "Print")) {
			for _, a := range call.Args {
				if c.mayPanic(a) {
					c.fail(call, "print of an expression that can panic")
				}
			}
			return
		}
	}
	co := c.callTerm(call)
	c.useCall(call, co, true) // an ignored error result does not abort
}

func (c *fctx) okRet(results []string) string {
	if len(c.loops) > 0 && c.loops[len(c.loops)-1].valueRet {
		r := c.okReturn(results)
		return "Res.ok (Sum.inr " + strings.TrimPrefix(r, "Res.ok ") + ")"
	}
	return c.okReturn(results)
}

func (c *fctx) ret(s *ast.ReturnStmt) string {
	fi := c.fi
	nwant := len(fi.results)
	if fi.hasErr {
		nwant++
	}
	if len(s.Results) == 0 && nwant > 0 {
		c.fail(s, "naked return")
	}
	inLoop := len(c.loops) > 0
	if inLoop && !c.loops[len(c.loops)-1].valueRet {
		// only error returns were expected in this loop (see hasValueReturn)
		if !(fi.hasErr && len(s.Results) > 0 && c.isNonNilError(s.Results[len(s.Results)-1])) {
			c.fail(s, "return of a value inside a loop that was classified as error-only")
		}
	}
	// return f(..)
	if len(s.Results) == 1 && nwant > 1 {
		call, ok := s.Results[0].(*ast.CallExpr)
		if !ok {
			c.fail(s, "return count")
		}
		co := c.callTerm(call)
		res := c.useCall(call, co, false)
		pre := c.flush()
		return pre + c.okRet(res)
	}
	var errExpr ast.Expr
	vals := s.Results
	if fi.hasErr {
		errExpr = s.Results[len(s.Results)-1]
		vals = s.Results[:len(s.Results)-1]
	}
	isNilIdent := func(e ast.Expr) bool { id, ok := e.(*ast.Ident); return ok && id.Name == "nil" }
	if errExpr != nil && c.isNonNilError(errExpr) {
		// operands of the error message that can panic are evaluated for their fault only
		for _, e := range s.Results {
			if c.mayPanic(e) {
				c.faultOnly(e)
			}
		}
		return c.flush() + "Res.err"
	}
	if errExpr != nil && !isNilIdent(errExpr) {
		// return x, f(..)  with a single error-valued call, or an error variable of unknown state
		if call, ok := errExpr.(*ast.CallExpr); ok && !c.errorCtor(call) {
			co := c.callTerm(call)
			if co.nres != 0 || !co.hasErr {
				c.fail(s, "error expression")
			}
			c.useCall(call, co, false)
			var rs []string
			for i, e := range vals {
				rs = append(rs, c.rhs(e, fi.results[i]))
			}
			return c.flush() + c.okRet(rs)
		}
		ev := c.rhs(errExpr, types.Universe.Lookup("error").Type())
		var rs []string
		for i, e := range vals {
			rs = append(rs, c.rhs(e, fi.results[i]))
		}
		return c.flush() + "if " + c.errIsNonNil(ev) + " then Res.err else " + c.okRet(rs)
	}
	var rs []string
	for i, e := range vals {
		rs = append(rs, c.rhs(e, fi.results[i]))
	}
	return c.flush() + c.okRet(rs)
}

// evaluate the panicking sub-expressions of e (value discarded)
func (c *fctx) faultOnly(e ast.Expr) {
	ast.Inspect(e, func(n ast.Node) bool {
		switch x := n.(type) {
		case *ast.IndexExpr:
			c.expr(x)
			return false
		case *ast.SliceExpr:
			c.expr(x)
			return false
		case *ast.TypeAssertExpr:
			c.expr(x)
			return false
		case *ast.CallExpr:
			if c.errorCtor(x) {
				return true
			}
			if id, ok := x.Fun.(*ast.Ident); ok {
				if _, ok := c.info.Uses[id].(*types.Builtin); ok {
					return true
				}
			}
			if tv, ok := c.info.Types[x.Fun]; ok && tv.IsType() {
				return true
			}
			if sel, ok := x.Fun.(*ast.SelectorExpr); ok && sel.Sel.Name == "String" && len(x.Args) == 0 {
				if _, isBasic := c.info.Types[sel.X].Type.Underlying().(*types.Basic); isBasic {
					return true // Stringer of a named basic type: reads a table
				}
			}
			// a call of a translated function with one plain result: evaluated for its faults and effects
			if tv, ok := c.info.Types[x]; ok {
				if _, isTuple := tv.Type.(*types.Tuple); !isTuple && !isErrorType(tv.Type) {
					c.expr(x)
					return false
				}
			}
			c.fail(x, "call inside an error message")
		}
		return true
	})
}

type viewInfo struct {
	src  ast.Expr // the object the pointer points into
	wrap string   // format of the value to store back, %s = the pointer variable
	// a view that is not a Go lvalue (the element a callee appended to a container and returned): how to store the
	// value back and how to re-read it from the container before a write through it
	custom  func(name string)
	refresh func()
}

// x := y.(*T)  or  x := y.F (F of pointer-to-struct type): x aliases y
func (c *fctx) recordView(lhs, rhs ast.Expr) {
	id, ok := lhs.(*ast.Ident)
	if !ok {
		return
	}
	v := c.localVar(id)
	if v == nil {
		return
	}
	if _, isSlice := v.Type().Underlying().(*types.Slice); isSlice {
		delete(c.views, v)
		if se, ok := rhs.(*ast.SliceExpr); ok && !se.Slice3 {
			if fx, ok := se.X.(*ast.SelectorExpr); ok {
				// v = p.F[lo:] where p is a pointer view made by this function (the element a callee appended and
				// returned): the octets belong to that element alone; a write through v is a write to p.F
				if pid, ok := ast.Unparen(fx.X).(*ast.Ident); ok {
					if pv := c.localVar(pid); pv != nil {
						if vw, ok := c.views[pv]; ok && vw.custom != nil {
							lo := "0"
							if se.Low != nil {
								if nt, ok := c.natTerm(se.Low); ok {
									lo = nt
								} else {
									lo = "(" + c.toInt(se.Low) + ").toNat"
								}
							}
							c.views[v] = viewInfo{src: se.X, wrap: "(Go.splice " + c.expr(se.X) + " " + lo + " %s)"}
							c.owned[v] = true
							c.fi.notes = appendOnce(c.fi.notes, "a write through a slice of a field of the element a callee appended and returned is a write to that element (its octets are taken to be its own)")
						}
					}
				}
				return
			}
			if bid, ok := se.X.(*ast.Ident); ok {
				if bv := c.localVar(bid); bv != nil && bv != v && c.sliceOwned(bv) {
					lo := "0"
					if se.Low != nil {
						nt, ok := c.natTerm(se.Low)
						if !ok {
							return
						}
						lo = nt
					}
					// the window keeps its length: writes through v replace base[lo : lo+len(v)]
					c.views[v] = viewInfo{src: se.X, wrap: "(Go.splice " + c.name(bv) + " " + lo + " %s)"}
					c.owned[v] = true
				}
			}
		}
		return
	}
	if _, isPtr := v.Type().(*types.Pointer); !isPtr {
		return
	}
	delete(c.views, v)
	switch x := rhs.(type) {
	case *ast.TypeAssertExpr:
		tt := derefNamed(c.info.Types[x.Type].Type)
		it := c.info.Types[x.X].Type
		if tt == nil || rootVar(c.info, x.X) == nil {
			return
		}
		c.views[v] = viewInfo{src: x.X, wrap: "(" + c.ltype(rhs, it) + "." + san(tt.Obj().Name()) + " %s)"}
	case *ast.SliceExpr:
		// v = base[lo:hi] of a slice this function created: v is a window of base; a write to v is written back
		return
	case *ast.SelectorExpr:
		if sel, ok := c.info.Selections[x]; ok && sel.Kind() == types.FieldVal && rootVar(c.info, x) != nil {
			if pt, ok := c.info.Types[x].Type.(*types.Pointer); ok {
				if _, ok := pt.Elem().Underlying().(*types.Struct); ok {
					c.views[v] = viewInfo{src: x, wrap: "%s"}
				}
			}
		}
	}
}

// x := container.Build…(…) where the callee ends with `*container = append(*container, p); return p`:
// x is a view of the element at the index the callee appended it at
func (c *fctx) storedLastView(s *ast.AssignStmt, call *ast.CallExpr) {
	callee := c.t.staticCallee(c.info, call)
	if callee == nil {
		return
	}
	ci := c.t.fns[callee]
	if ci == nil || !ci.retStoredLast || len(s.Lhs) == 0 {
		return
	}
	id, ok := s.Lhs[0].(*ast.Ident)
	sel, ok2 := call.Fun.(*ast.SelectorExpr)
	if !ok || !ok2 {
		return
	}
	v := c.localVar(id)
	if v == nil {
		return
	}
	recv := sel.X
	rt := c.info.Types[recv].Type
	if p, ok := rt.Underlying().(*types.Pointer); ok { // the caller's own receiver: a pointer to the container
		rt = p.Elem()
	}
	st, ok := rt.Underlying().(*types.Slice)
	if !ok {
		return
	}
	ix := c.fresh("ix")
	c.letPure(ix, "Nat", "("+c.expr(recv)+".length - 1)")
	elemT := st.Elem()
	name := c.name(v)
	vt := c.vtype(s, v)
	read := "((" + c.expr(recv) + ")[" + ix + "]?).getD " + name
	if in := derefNamed(elemT); in != nil {
		if _, isI := in.Underlying().(*types.Interface); isI {
			tn := derefNamed(v.Type())
			read = "(match (" + c.expr(recv) + ")[" + ix + "]? with | some (" + c.ltype(s, elemT) + "." + san(tn.Obj().Name()) + " w_) => w_ | _ => " + name + ")"
		}
	}
	c.views[v] = viewInfo{
		custom: func(nm string) {
			c.lvalSet(recv, "(Go.setAt "+c.expr(recv)+" "+ix+" "+c.coerce(s, nm, v.Type(), elemT)+")")
		},
		refresh: func() { c.letPure(name, vt, read) },
	}
	c.fi.notes = appendOnce(c.fi.notes, "the pointer a builder returns is a view of the element it appended (valid while the container keeps that element at its index)")
}
