package main

// libNoise: one unrelated operation of the library, made between two cases of an oracle.  A process that uses the
// library does all of these in some order; whatever one of them leaves behind (a pooled buffer, a cache entry, a
// dirty scratch object) must not reach the next call of something else.

import (
	"github.com/free5gc/ike/message"
)

func libNoise(g *Gen) {
	guard(func() (string, error) {
		switch g.r.Intn(9) {
		case 0:
			encodeMsgRes(buildMsg(g.msg()))
		case 1, 2: // an EAP-AKA' packet built, marshalled, its AT_MAC computed
			td := L(A("AKA"), N(uint64(g.pick(1, 2, 4, 5))))
			td.List = append(td.List, g.akaSets()...)
			if e, err := buildEAP(L(A("EAP"), N(uint64(g.pick(1, 2))), N(g.u8()), td)); err == nil {
				e.Marshal()
				e.CalcEapAkaPrimeAtMAC(g.keyBytesRandom(32))
				e.Marshal()
			}
		case 3:
			c14ForeignDecode(g)
		case 4:
			runDec(decoders()[0], g.mutate(g.baseFor("msg")))
		case 5:
			kdAkaGo(g.keyBytesRandom(16), g.keyBytesRandom(16), g.keyBytesRandom(g.r.Intn(40)))
		case 6:
			k := g.saKeys(allSuites()[g.r.Intn(9)])
			role := message.Role(g.chance(0.5))
			if p, _ := protect(newSA(k), buildMsg(g.smallMsg()), role, g.keyBytesRandom(32), -1); p.kind == "ok" {
				unprotect(newSA(k), unhx(p.val), !role, g.chance(0.5))
			}
		case 7:
			k := g.saKeys(allSuites()[g.r.Intn(9)])
			kdChildK(g, k, g.r.Intn(3), g.r.Intn(4)-1, g.keyBytesRandom(16+g.r.Intn(32)), 1+g.r.Intn(2))
		default:
			in := g.kdInputs(3 + g.r.Intn(3))
			kdDerive(kdBlankSA(allSuites()[g.r.Intn(9)], g.r.Intn(2)), in.nonce, in.secret, in.spiI, in.spiR)
		}
		return "", nil
	})
}
