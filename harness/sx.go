package main

// S-expressions: the one textual form in which messages, payloads and EAP
// packets travel between the Go harness and the Lean driver, and in which
// decoded values are compared (canonical: decimal integers, x<hex> octet
// strings with nil == empty, fixed field order).

import (
	"encoding/hex"
	"fmt"
	"strconv"
	"strings"
)

type Sx struct {
	Atom string
	List []*Sx
	IsL  bool
}

func A(s string) *Sx     { return &Sx{Atom: s} }
func N(v uint64) *Sx     { return &Sx{Atom: strconv.FormatUint(v, 10)} }
func X(b []byte) *Sx     { return &Sx{Atom: "x" + hex.EncodeToString(b)} }
func L(items ...*Sx) *Sx { return &Sx{IsL: true, List: items} }

// L_ is L (for scopes where L names a length)
func L_(items ...*Sx) *Sx { return L(items...) }
func Bl(b bool) *Sx {
	if b {
		return A("1")
	}
	return A("0")
}

func (s *Sx) String() string {
	var sb strings.Builder
	s.write(&sb)
	return sb.String()
}

func (s *Sx) write(sb *strings.Builder) {
	if !s.IsL {
		sb.WriteString(s.Atom)
		return
	}
	sb.WriteByte('(')
	for i, c := range s.List {
		if i > 0 {
			sb.WriteByte(' ')
		}
		c.write(sb)
	}
	sb.WriteByte(')')
}

func (s *Sx) Head() string {
	if s.IsL && len(s.List) > 0 && !s.List[0].IsL {
		return s.List[0].Atom
	}
	return ""
}

func (s *Sx) U(i int) uint64 {
	v, err := strconv.ParseUint(s.List[i].Atom, 10, 64)
	if err != nil {
		panic(fmt.Sprintf("sx: bad number %q in %s", s.List[i].Atom, s.String()))
	}
	return v
}

func (s *Sx) B(i int) []byte {
	a := s.List[i].Atom
	if !strings.HasPrefix(a, "x") {
		panic("sx: bad bytes " + a)
	}
	b, err := hex.DecodeString(a[1:])
	if err != nil {
		panic("sx: bad hex " + a)
	}
	return b
}

func ParseSx(text string) (*Sx, error) {
	p := &sxParser{s: text}
	v, err := p.parse()
	if err != nil {
		return nil, err
	}
	p.skip()
	if p.i != len(p.s) {
		return nil, fmt.Errorf("sx: trailing input at %d", p.i)
	}
	return v, nil
}

type sxParser struct {
	s string
	i int
}

func (p *sxParser) skip() {
	for p.i < len(p.s) && (p.s[p.i] == ' ' || p.s[p.i] == '\n' || p.s[p.i] == '\t') {
		p.i++
	}
}

func (p *sxParser) parse() (*Sx, error) {
	p.skip()
	if p.i >= len(p.s) {
		return nil, fmt.Errorf("sx: unexpected end")
	}
	if p.s[p.i] == '(' {
		p.i++
		out := &Sx{IsL: true}
		for {
			p.skip()
			if p.i >= len(p.s) {
				return nil, fmt.Errorf("sx: unclosed list")
			}
			if p.s[p.i] == ')' {
				p.i++
				return out, nil
			}
			c, err := p.parse()
			if err != nil {
				return nil, err
			}
			out.List = append(out.List, c)
		}
	}
	if p.s[p.i] == ')' {
		return nil, fmt.Errorf("sx: unexpected )")
	}
	j := p.i
	for j < len(p.s) && p.s[j] != ' ' && p.s[j] != '(' && p.s[j] != ')' && p.s[j] != '\n' {
		j++
	}
	a := p.s[p.i:j]
	p.i = j
	return &Sx{Atom: a}, nil
}
