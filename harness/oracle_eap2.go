package main

// C14/C15 addendum: a long-lived *eap.EAP object used to decode successive
// packets must behave like a fresh object for each packet (decoded value and
// receiver-side AT_MAC).

import (
	"github.com/free5gc/ike/eap"
)

func init() {
	p14, p15 := props["C14"], props["C15"]
	props["C14"] = func(c *Ctx) { p14(c); c.eapReuse("C14") }
	props["C15"] = func(c *Ctx) { p15(c); c.eapReuse("C15") }
}

func (c *Ctx) eapReuse(prop string) {
	if c.replay != nil {
		return
	}
	g := NewGen(c.seed + 977)
	s := c.suite("reused-decoder-object", "oracle",
		"sequences of 2..6 EAP packets (API-built AKA' packets with different attribute subsets, other methods, Success/Failure; a quarter of them followed by a mutated copy that may fail to decode) decoded one after the other into ONE *eap.EAP object: after each Unmarshal the rendered value, its re-marshalling and (for AKA') CalcEapAkaPrimeAtMAC must equal those of the same packet decoded into a fresh object; non-trivial = sequence contains >= 2 AKA' packets; distinct by sequence")
	n := c.n(600, 30000)
	for i := 0; i < n; i++ {
		k := 2 + g.r.Intn(5)
		var wires [][]byte
		akas := 0
		for j := 0; j < k; j++ {
			var sx *Sx
			if g.chance(0.75) {
				a := L(A("AKA"), N(uint64(g.pick(1, 2, 4, 5, 12, 13, 14))))
				a.List = append(a.List, g.akaSets()...)
				sx = L(A("EAP"), N(uint64(g.pick(1, 2))), N(g.u8()), a)
				akas++
			} else {
				sx = g.eap()
			}
			e, err := buildEAP(sx)
			if err != nil {
				continue
			}
			b, err := e.Marshal()
			if err != nil || len(b) > 65535 {
				continue
			}
			wires = append(wires, b)
			if g.chance(0.25) { // a packet that fails to decode (or decodes differently) in between: the next one still has to decode as into a fresh object
				if mw := g.mutate(b); len(mw) > 0 { // EAP.Unmarshal of an EMPTY slice returns nil without touching the object (observation, outside C14)
					wires = append(wires, mw)
				}
			}
		}
		key := g.keyBytesRandom(32)
		long := new(eap.EAP)
		caseText := "eap-reuse"
		for _, w := range wires {
			caseText += " " + hx(w)
		}
		s.add(caseText, akas >= 2, "len:"+string(rune('0'+len(wires))))
		for j, w := range wires {
			obs := func(e *eap.EAP) callRes {
				return guard(func() (string, error) {
					if err := e.Unmarshal(exact(w)); err != nil {
						return "", err
					}
					out := renderEAP(e).String()
					if _, ok := e.EapTypeData.(*eap.EapAkaPrime); ok {
						mac, err := e.CalcEapAkaPrimeAtMAC(key)
						if err != nil {
							return out + " mac-err", nil
						}
						out += " mac=" + hx(mac)
					}
					return out, nil
				})
			}
			rl := obs(long)
			rf := obs(new(eap.EAP))
			if rl != rf {
				c.violate(Violation{Suite: s.Name, Kind: "property", Index: i, Class: "reused-eap-object",
					Desc:  "packet #" + string(rune('1'+j)) + " decoded into an EAP object that decoded other packets before differs from the same packet decoded into a fresh object (value, re-marshalling or receiver-side AT_MAC)",
					Input: caseText, Expected: clip(rf.String()), Actual: clip(rl.String())})
				break
			}
		}
	}
}
