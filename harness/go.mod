module ikeverif/harness

go 1.21

require (
	github.com/free5gc/ike v0.0.0
	github.com/pkg/errors v0.9.1
)

replace github.com/free5gc/ike => /repo
