package main

// Canonical rendering of native free5gc/ike values (output form) and
// construction of native values from S-expressions (input form).  The two
// forms coincide except for EAP-AKA', whose fields are unexported: it is built
// through SetAttr calls `(AKA sub (SET t xV)...)` and observed through
// SubType()/GetAttr()/Marshal() as `(AKA sub xMARSHAL|! (AT t xV)...)`.

import (
	"fmt"

	"github.com/free5gc/ike/eap"
	"github.com/free5gc/ike/message"
)

func renderTransform(t *message.Transform) *Sx {
	if t == nil {
		return A("nil")
	}
	return L(A("T"), N(uint64(t.TransformType)), N(uint64(t.TransformID)), Bl(t.AttributePresent),
		N(uint64(t.AttributeFormat)), N(uint64(t.AttributeType)), N(uint64(t.AttributeValue)),
		X(t.VariableLengthAttributeValue))
}

func renderTC(c message.TransformContainer) *Sx {
	out := L()
	for _, t := range c {
		out.List = append(out.List, renderTransform(t))
	}
	return out
}

func renderProposal(p *message.Proposal) *Sx {
	if p == nil {
		return A("nil")
	}
	return L(A("P"), N(uint64(p.ProposalNumber)), N(uint64(p.ProtocolID)), X(p.SPI),
		renderTC(p.EncryptionAlgorithm), renderTC(p.PseudorandomFunction), renderTC(p.IntegrityAlgorithm),
		renderTC(p.DiffieHellmanGroup), renderTC(p.ExtendedSequenceNumbers))
}

func renderTS(c message.IndividualTrafficSelectorContainer) *Sx {
	out := L()
	for _, t := range c {
		out.List = append(out.List, L(A("TS"), N(uint64(t.TSType)), N(uint64(t.IPProtocolID)),
			N(uint64(t.StartPort)), N(uint64(t.EndPort)), X(t.StartAddress), X(t.EndAddress)))
	}
	return out
}

func renderEapTypeData(d eap.EapTypeData) *Sx {
	switch v := d.(type) {
	case nil:
		return A("nil")
	case *eap.EapIdentity:
		return L(A("ID"), X(v.IdentityData))
	case *eap.EapNotification:
		return L(A("NOTIF"), X(v.NotificationData))
	case *eap.EapNak:
		return L(A("NAK"), X(v.NakData))
	case *eap.EapExpanded:
		return L(A("EXP"), N(uint64(v.VendorID)), N(uint64(v.VendorType)), X(v.VendorData))
	case *eap.EapAkaPrime:
		out := L(A("AKA"), N(uint64(v.SubType())))
		// the attribute values are read BEFORE Marshal is called, so that a Marshal with a side effect on the
		// stored values cannot hide itself from a before/after comparison
		var ats []*Sx
		for t := 0; t < 256; t++ {
			if a, err := v.GetAttr(eap.EapAkaPrimeAttrType(t)); err == nil {
				ats = append(ats, L(A("AT"), N(uint64(t)), X(append([]byte{}, a.GetValue()...))))
			}
		}
		if mb, err := v.Marshal(); err != nil {
			out.List = append(out.List, A("!"))
		} else {
			out.List = append(out.List, X(mb))
		}
		out.List = append(out.List, ats...)
		return out
	}
	return A(fmt.Sprintf("unknown-eap-%T", d))
}

func renderEAP(e *eap.EAP) *Sx {
	if e == nil {
		return A("nil")
	}
	return L(A("EAP"), N(uint64(e.Code)), N(uint64(e.Identifier)), renderEapTypeData(e.EapTypeData))
}

func renderPayload(p message.IKEPayload) *Sx {
	switch v := p.(type) {
	case *message.SecurityAssociation:
		ps := L()
		for _, pr := range v.Proposals {
			ps.List = append(ps.List, renderProposal(pr))
		}
		return L(A("SA"), ps)
	case *message.KeyExchange:
		return L(A("KE"), N(uint64(v.DiffieHellmanGroup)), X(v.KeyExchangeData))
	case *message.IdentificationInitiator:
		return L(A("IDi"), N(uint64(v.IDType)), X(v.IDData))
	case *message.IdentificationResponder:
		return L(A("IDr"), N(uint64(v.IDType)), X(v.IDData))
	case *message.Certificate:
		return L(A("CERT"), N(uint64(v.CertificateEncoding)), X(v.CertificateData))
	case *message.CertificateRequest:
		return L(A("CERTREQ"), N(uint64(v.CertificateEncoding)), X(v.CertificationAuthority))
	case *message.Authentication:
		return L(A("AUTH"), N(uint64(v.AuthenticationMethod)), X(v.AuthenticationData))
	case *message.Nonce:
		return L(A("NONCE"), X(v.NonceData))
	case *message.Notification:
		return L(A("N"), N(uint64(v.ProtocolID)), N(uint64(v.NotifyMessageType)), X(v.SPI), X(v.NotificationData))
	case *message.Delete:
		sp := L()
		for _, s := range v.SPIs {
			sp.List = append(sp.List, N(uint64(s)))
		}
		return L(A("D"), N(uint64(v.ProtocolID)), N(uint64(v.SPISize)), N(uint64(v.NumberOfSPI)), sp)
	case *message.VendorID:
		return L(A("V"), X(v.VendorIDData))
	case *message.TrafficSelectorInitiator:
		return L(A("TSi"), renderTS(v.TrafficSelectors))
	case *message.TrafficSelectorResponder:
		return L(A("TSr"), renderTS(v.TrafficSelectors))
	case *message.Encrypted:
		return L(A("SK"), N(uint64(v.NextPayload)), X(v.EncryptedData))
	case *message.Configuration:
		as := L()
		for _, a := range v.ConfigurationAttribute {
			as.List = append(as.List, L(A("A"), N(uint64(a.Type)), X(a.Value)))
		}
		return L(A("CP"), N(uint64(v.ConfigurationType)), as)
	case *message.PayloadEap:
		return renderEAP(v.EAP)
	}
	return A(fmt.Sprintf("unknown-payload-%T", p))
}

func renderPayloads(c message.IKEPayloadContainer) *Sx {
	out := L()
	for _, p := range c {
		out.List = append(out.List, renderPayload(p))
	}
	return out
}

func renderHeader(h *message.IKEHeader) *Sx {
	if h == nil {
		return A("nil")
	}
	return L(A("H"), N(h.InitiatorSPI), N(h.ResponderSPI), N(uint64(h.MajorVersion)), N(uint64(h.MinorVersion)),
		N(uint64(h.ExchangeType)), N(uint64(h.Flags)), N(uint64(h.MessageID)))
}

// header as ParseHeader returns it, including the two derived fields
func renderHeaderFull(h *message.IKEHeader) *Sx {
	s := renderHeader(h)
	s.List = append(s.List, N(uint64(h.NextPayload)), X(h.PayloadBytes))
	return s
}

func renderMsg(m *message.IKEMessage) *Sx {
	if m == nil {
		return A("nil")
	}
	return L(A("msg"), renderHeader(m.IKEHeader), renderPayloads(m.Payloads))
}

// ---------------------------------------------------------------------------
// input form -> native values

func buildTC(s *Sx) message.TransformContainer {
	var c message.TransformContainer
	for _, t := range s.List {
		c = append(c, buildTransform(t))
	}
	return c
}

func buildTransform(t *Sx) *message.Transform {
	return &message.Transform{
		TransformType: uint8(t.U(1)), TransformID: uint16(t.U(2)), AttributePresent: t.U(3) != 0,
		AttributeFormat: uint8(t.U(4)), AttributeType: uint16(t.U(5)), AttributeValue: uint16(t.U(6)),
		VariableLengthAttributeValue: t.B(7),
	}
}

func buildProposal(p *Sx) *message.Proposal {
	return &message.Proposal{
		ProposalNumber: uint8(p.U(1)), ProtocolID: uint8(p.U(2)), SPI: p.B(3),
		EncryptionAlgorithm: buildTC(p.List[4]), PseudorandomFunction: buildTC(p.List[5]),
		IntegrityAlgorithm: buildTC(p.List[6]), DiffieHellmanGroup: buildTC(p.List[7]),
		ExtendedSequenceNumbers: buildTC(p.List[8]),
	}
}

func buildTS(s *Sx) message.IndividualTrafficSelectorContainer {
	var c message.IndividualTrafficSelectorContainer
	for _, t := range s.List {
		c = append(c, &message.IndividualTrafficSelector{
			TSType: uint8(t.U(1)), IPProtocolID: uint8(t.U(2)), StartPort: uint16(t.U(3)), EndPort: uint16(t.U(4)),
			StartAddress: t.B(5), EndAddress: t.B(6),
		})
	}
	return c
}

// buildEapTypeData returns an error when a SET in the input is refused by the setter.
func buildEapTypeData(s *Sx) (eap.EapTypeData, error) {
	if !s.IsL {
		return nil, nil
	}
	switch s.Head() {
	case "ID":
		return &eap.EapIdentity{IdentityData: s.B(1)}, nil
	case "NOTIF":
		return &eap.EapNotification{NotificationData: s.B(1)}, nil
	case "NAK":
		return &eap.EapNak{NakData: s.B(1)}, nil
	case "EXP":
		return &eap.EapExpanded{VendorID: uint32(s.U(1)), VendorType: uint32(s.U(2)), VendorData: s.B(3)}, nil
	case "AKA":
		a := eap.NewEapAkaPrime(eap.EapAkaSubtype(s.U(1)))
		for _, st := range s.List[2:] {
			if err := a.SetAttr(eap.EapAkaPrimeAttrType(st.U(1)), st.B(2)); err != nil {
				return nil, err
			}
		}
		return a, nil
	}
	panic("buildEapTypeData: " + s.String())
}

func buildEAP(s *Sx) (*eap.EAP, error) {
	td, err := buildEapTypeData(s.List[3])
	if err != nil {
		return nil, err
	}
	return &eap.EAP{Code: eap.EapCode(s.U(1)), Identifier: uint8(s.U(2)), EapTypeData: td}, nil
}

func buildPayload(s *Sx) message.IKEPayload {
	switch s.Head() {
	case "SA":
		sa := &message.SecurityAssociation{}
		for _, p := range s.List[1].List {
			sa.Proposals = append(sa.Proposals, buildProposal(p))
		}
		return sa
	case "KE":
		return &message.KeyExchange{DiffieHellmanGroup: uint16(s.U(1)), KeyExchangeData: s.B(2)}
	case "IDi":
		return &message.IdentificationInitiator{IDType: uint8(s.U(1)), IDData: s.B(2)}
	case "IDr":
		return &message.IdentificationResponder{IDType: uint8(s.U(1)), IDData: s.B(2)}
	case "CERT":
		return &message.Certificate{CertificateEncoding: uint8(s.U(1)), CertificateData: s.B(2)}
	case "CERTREQ":
		return &message.CertificateRequest{CertificateEncoding: uint8(s.U(1)), CertificationAuthority: s.B(2)}
	case "AUTH":
		return &message.Authentication{AuthenticationMethod: uint8(s.U(1)), AuthenticationData: s.B(2)}
	case "NONCE":
		return &message.Nonce{NonceData: s.B(1)}
	case "N":
		return &message.Notification{ProtocolID: uint8(s.U(1)), NotifyMessageType: uint16(s.U(2)), SPI: s.B(3), NotificationData: s.B(4)}
	case "D":
		d := &message.Delete{ProtocolID: uint8(s.U(1)), SPISize: uint8(s.U(2)), NumberOfSPI: uint16(s.U(3))}
		for i := range s.List[4].List {
			d.SPIs = append(d.SPIs, uint32(s.List[4].U(i)))
		}
		return d
	case "V":
		return &message.VendorID{VendorIDData: s.B(1)}
	case "TSi":
		return &message.TrafficSelectorInitiator{TrafficSelectors: buildTS(s.List[1])}
	case "TSr":
		return &message.TrafficSelectorResponder{TrafficSelectors: buildTS(s.List[1])}
	case "SK":
		return &message.Encrypted{NextPayload: uint8(s.U(1)), EncryptedData: s.B(2)}
	case "CP":
		c := &message.Configuration{ConfigurationType: uint8(s.U(1))}
		for _, a := range s.List[2].List {
			c.ConfigurationAttribute = append(c.ConfigurationAttribute,
				&message.IndividualConfigurationAttribute{Type: uint16(a.U(1)), Value: a.B(2)})
		}
		return c
	case "EAP":
		e, err := buildEAP(s)
		if err != nil {
			panic("buildPayload: generator produced an AKA' SET the setter refuses: " + err.Error())
		}
		return &message.PayloadEap{EAP: e}
	}
	panic("buildPayload: " + s.String())
}

func buildPayloads(s *Sx) message.IKEPayloadContainer {
	var c message.IKEPayloadContainer
	for _, p := range s.List {
		c = append(c, buildPayload(p))
	}
	return c
}

func buildHeader(h *Sx) *message.IKEHeader {
	return &message.IKEHeader{
		InitiatorSPI: h.U(1), ResponderSPI: h.U(2), MajorVersion: uint8(h.U(3)), MinorVersion: uint8(h.U(4)),
		ExchangeType: uint8(h.U(5)), Flags: uint8(h.U(6)), MessageID: uint32(h.U(7)),
	}
}

// mutateInPlace changes one field of one payload object of m (not of EAP payloads: their rendering is not an input
// form) and says what it changed; "" if there was nothing to change
func mutateInPlace(g *Gen, m *message.IKEMessage) string {
	if len(m.Payloads) == 0 {
		m.MessageID++
		return "the Message ID"
	}
	for _, p := range m.Payloads {
		if _, isEap := p.(*message.PayloadEap); isEap {
			return ""
		}
	}
	flip := func(b []byte) bool {
		if len(b) == 0 {
			return false
		}
		b[g.r.Intn(len(b))] ^= 0x21
		return true
	}
	switch x := m.Payloads[g.r.Intn(len(m.Payloads))].(type) {
	case *message.SecurityAssociation:
		if len(x.Proposals) > 0 {
			pr := x.Proposals[g.r.Intn(len(x.Proposals))]
			for _, c := range []message.TransformContainer{pr.EncryptionAlgorithm, pr.PseudorandomFunction, pr.IntegrityAlgorithm, pr.DiffieHellmanGroup, pr.ExtendedSequenceNumbers} {
				if len(c) > 0 {
					c[g.r.Intn(len(c))].TransformID ^= 0x0101
					return "a transform identifier"
				}
			}
			pr.ProposalNumber++
			return "a proposal number"
		}
	case *message.KeyExchange:
		if flip(x.KeyExchangeData) {
			return "an octet of the key exchange data"
		}
	case *message.IdentificationInitiator:
		x.IDType++
		return "the ID type"
	case *message.IdentificationResponder:
		if flip(x.IDData) {
			return "an octet of the ID data"
		}
	case *message.Certificate:
		if flip(x.CertificateData) {
			return "an octet of the certificate data"
		}
	case *message.CertificateRequest:
		x.CertificateEncoding++
		return "the certificate encoding"
	case *message.Authentication:
		if flip(x.AuthenticationData) {
			return "an octet of the authentication data"
		}
	case *message.Nonce:
		if flip(x.NonceData) {
			return "an octet of the nonce"
		}
	case *message.Notification:
		x.NotifyMessageType ^= 0x0100
		return "the notify message type"
	case *message.Delete:
		if len(x.SPIs) > 0 {
			x.SPIs[0]++
			return "an SPI of a Delete payload"
		}
	case *message.VendorID:
		if flip(x.VendorIDData) {
			return "an octet of the vendor ID"
		}
	case *message.TrafficSelectorInitiator:
		if len(x.TrafficSelectors) > 0 {
			x.TrafficSelectors[0].EndPort++
			return "a selector port"
		}
	case *message.TrafficSelectorResponder:
		if len(x.TrafficSelectors) > 0 && flip(x.TrafficSelectors[0].StartAddress) {
			return "an octet of a selector address"
		}
	case *message.Configuration:
		if len(x.ConfigurationAttribute) > 0 {
			x.ConfigurationAttribute[0].Type ^= 1
			return "a configuration attribute type"
		}
	}
	m.Flags ^= 0x20
	return "the header flags"
}

var buildMsgCtr int

func buildMsg(s *Sx) *message.IKEMessage {
	m := &message.IKEMessage{IKEHeader: buildHeader(s.List[1]), Payloads: buildPayloads(s.List[2])}
	buildMsgCtr++
	if buildMsgCtr%3 == 0 {
		rehouse(m)
	}
	return m
}

// rehouse moves every octet string and every container of a message into shared backing arrays, each field a
// sub-slice whose spare capacity covers the fields that follow (what a caller gets who cuts its values out of one
// buffer or one algorithm list).  The values are unchanged; code that appends to or writes through a field of the
// message it was given now damages a neighbour, which the round-trip / purity / protect oracles then see.
func rehouse(m *message.IKEMessage) {
	var bs []*[]byte
	var tcs []*message.TransformContainer
	var tss []*message.IndividualTrafficSelectorContainer
	var tcKind []int // which of the five containers of its proposal
	addB := func(p *[]byte) {
		if len(*p) > 0 {
			bs = append(bs, p)
		}
	}
	for _, pl := range m.Payloads {
		switch x := pl.(type) {
		case *message.SecurityAssociation:
			for _, pr := range x.Proposals {
				addB(&pr.SPI)
				for ki, c := range []*message.TransformContainer{&pr.EncryptionAlgorithm, &pr.PseudorandomFunction, &pr.IntegrityAlgorithm, &pr.DiffieHellmanGroup, &pr.ExtendedSequenceNumbers} {
					if len(*c) > 0 {
						tcs = append(tcs, c)
						tcKind = append(tcKind, ki)
					}
					for _, t := range *c {
						addB(&t.VariableLengthAttributeValue)
					}
				}
			}
		case *message.KeyExchange:
			addB(&x.KeyExchangeData)
		case *message.IdentificationInitiator:
			addB(&x.IDData)
		case *message.IdentificationResponder:
			addB(&x.IDData)
		case *message.Certificate:
			addB(&x.CertificateData)
		case *message.CertificateRequest:
			addB(&x.CertificationAuthority)
		case *message.Authentication:
			addB(&x.AuthenticationData)
		case *message.Nonce:
			addB(&x.NonceData)
		case *message.Notification:
			addB(&x.SPI)
			addB(&x.NotificationData)
		case *message.VendorID:
			addB(&x.VendorIDData)
		case *message.TrafficSelectorInitiator:
			if len(x.TrafficSelectors) > 0 {
				tss = append(tss, &x.TrafficSelectors)
			}
			for _, t := range x.TrafficSelectors {
				addB(&t.StartAddress)
				addB(&t.EndAddress)
			}
		case *message.TrafficSelectorResponder:
			if len(x.TrafficSelectors) > 0 {
				tss = append(tss, &x.TrafficSelectors)
			}
			for _, t := range x.TrafficSelectors {
				addB(&t.StartAddress)
				addB(&t.EndAddress)
			}
		case *message.Configuration:
			for _, a := range x.ConfigurationAttribute {
				addB(&a.Value)
			}
		case *message.PayloadEap:
			if x.EAP != nil {
				switch td := x.EAP.EapTypeData.(type) {
				case *eap.EapIdentity:
					addB(&td.IdentityData)
				case *eap.EapNotification:
					addB(&td.NotificationData)
				case *eap.EapNak:
					addB(&td.NakData)
				case *eap.EapExpanded:
					addB(&td.VendorData)
				}
			}
		}
	}
	// placement order: reversed or rotated, never the message order (an in-place append of the field that follows
	// in the message would otherwise write the values that are there already)
	k := buildMsgCtr / 3
	perm := func(n, i int) int {
		if k%2 == 0 {
			return n - 1 - i
		}
		return (i + 1 + k%(n+1)) % n
	}
	{
		b2 := make([]*[]byte, len(bs))
		for i := range bs {
			b2[perm(len(bs), i)] = bs[i]
		}
		t2 := make([]*message.TransformContainer, len(tcs))
		for i := range tcs {
			t2[perm(len(tcs), i)] = tcs[i]
		}
		if k%3 == 2 { // grouped by kind: all encryption lists (cut from one list of supported algorithms), then all PRF lists, ...
			t2 = t2[:0]
			for ki := 0; ki < 5; ki++ {
				for i := range tcs {
					if tcKind[i] == ki {
						t2 = append(t2, tcs[i])
					}
				}
			}
		}
		s2 := make([]*message.IndividualTrafficSelectorContainer, len(tss))
		for i := range tss {
			s2[perm(len(tss), i)] = tss[i]
		}
		bs, tcs, tss = b2, t2, s2
	}
	total := 0
	for _, p := range bs {
		total += len(*p)
	}
	arena := make([]byte, 0, total+16)
	for _, p := range bs {
		off := len(arena)
		arena = append(arena, *p...)
		*p = arena[off:len(arena)] // capacity reaches to the end of the arena
	}
	nt := 0
	for _, c := range tcs {
		nt += len(*c)
	}
	ta := make(message.TransformContainer, 0, nt+4)
	for _, c := range tcs {
		off := len(ta)
		ta = append(ta, *c...)
		*c = ta[off:len(ta)]
	}
	ns := 0
	for _, c := range tss {
		ns += len(*c)
	}
	sa := make(message.IndividualTrafficSelectorContainer, 0, ns+4)
	for _, c := range tss {
		off := len(sa)
		sa = append(sa, *c...)
		*c = sa[off:len(sa)]
	}
}

// payloadTypeCode: IKE payload type code of an input-form payload
func payloadTypeOf(s *Sx) uint8 {
	return uint8(buildPayload(s).Type())
}
