package main

// C05 — wire format agrees with an independent RFC 7296 codec in both directions.
//
// Independent references in this file (Go standard library only, no call into
// the implementation):
//
//   refEncodeMsg   an RFC 7296 encoder with the sender's liberties (reserved
//                  octets, flag octets, R bits, transform order), written from
//                  the RFC figures; it mirrors lean/IkeModel/Spec/Wire.lean and
//                  the two are compared byte for byte (suite go-ref-vs-lean-spec)
//   refParseMsg    a strict RFC 7296 parser that recovers the fields from a
//                  datagram (used on the implementation's encodings)
//   wfWalk         (oracle_codec.go) the framing / reserved-bits walk
//
// Derivation of the liberties from a seed — identical to lean/DriverSpec.lean:
//
//   x_0 = seed mod 2^31;   draw(): x := (x * 1103515245 + 12345) mod 2^31, result x div 2^16   (15 bits)
//   octet() = draw() mod 256;   bit() = (draw() mod 2 = 1);   seed 0 = no liberties (canonical)
//
//   for every payload, in message order:
//     flags := octet()                                      -- generic payload header: C bit + 7 reserved bits
//     KE:                       r0 := octet(); r1 := octet()
//     IDi IDr AUTH TSi TSr:     r0 := octet(); r1 := octet(); r2 := octet()
//     CP:                       r0, r1, r2 as above; then for every attribute, in order: R := bit()
//     SA: for every proposal, in order:
//           reserved := octet()
//           while one of the five lists (ENCR, PRF, INTEG, DH, ESN — in this order) is not empty:
//             k := number of non-empty lists;  j := draw() mod k
//             t := head of the j-th non-empty list (counting from 0), removed from that list
//             res1 := octet(); res2 := octet();  emit t with (res1, res2)
//     every other kind:         no further draw

import (
	"encoding/binary"
	"errors"
	"fmt"
	"strconv"
	"strings"
)

// ---------------------------------------------------------------------------
// liberties

type libRng struct{ x uint64 }

func (r *libRng) draw() uint64 {
	r.x = (r.x*1103515245 + 12345) % (1 << 31)
	return r.x >> 16
}
func (r *libRng) octet() byte { return byte(r.draw() % 256) }
func (r *libRng) bit() bool   { return r.draw()%2 == 1 }

type emitT struct {
	t      *Sx
	r1, r2 byte
}

type pLib struct {
	reserved byte
	emitted  []emitT
}

type payLib struct {
	flags, r0, r1, r2 byte
	rbits             []bool
	props             []pLib
}

func canonicalPLib(p *Sx) pLib {
	var l pLib
	for c := 4; c <= 8; c++ {
		for _, t := range p.List[c].List {
			l.emitted = append(l.emitted, emitT{t: t})
		}
	}
	return l
}

// deriveLibs: the liberties of message sx for a seed (nil for seed 0)
func deriveLibs(sx *Sx, seed uint64) []payLib {
	if seed == 0 {
		return nil
	}
	r := &libRng{x: seed % (1 << 31)}
	var out []payLib
	for _, p := range sx.List[2].List {
		l := payLib{flags: r.octet()}
		switch p.Head() {
		case "KE":
			l.r0, l.r1 = r.octet(), r.octet()
		case "IDi", "IDr", "AUTH", "TSi", "TSr":
			l.r0, l.r1, l.r2 = r.octet(), r.octet(), r.octet()
		case "CP":
			l.r0, l.r1, l.r2 = r.octet(), r.octet(), r.octet()
			for range p.List[2].List {
				l.rbits = append(l.rbits, r.bit())
			}
		case "SA":
			for _, pr := range p.List[1].List {
				pl := pLib{reserved: r.octet()}
				lists := [5][]*Sx{}
				for c := 0; c < 5; c++ {
					lists[c] = pr.List[4+c].List
				}
				for {
					var ne []int
					for c := 0; c < 5; c++ {
						if len(lists[c]) > 0 {
							ne = append(ne, c)
						}
					}
					if len(ne) == 0 {
						break
					}
					c := ne[int(r.draw()%uint64(len(ne)))]
					t := lists[c][0]
					lists[c] = lists[c][1:]
					r1 := r.octet()
					r2 := r.octet()
					pl.emitted = append(pl.emitted, emitT{t: t, r1: r1, r2: r2})
				}
				l.props = append(l.props, pl)
			}
		}
		out = append(out, l)
	}
	return out
}

// ---------------------------------------------------------------------------
// independent encoder (RFC 7296 figures)

var errRefSize = errors.New("value does not fit its field")

func be16(v int) []byte { return []byte{byte(v >> 8), byte(v)} }

var payloadTypeByKind = map[string]byte{"SA": 33, "KE": 34, "IDi": 35, "IDr": 36, "CERT": 37, "CERTREQ": 38, "AUTH": 39,
	"NONCE": 40, "N": 41, "D": 42, "V": 43, "TSi": 44, "TSr": 45, "SK": 46, "CP": 47, "EAP": 48}

// §3.3.5 + §3.3.2
func refTransform(e emitT, last bool) ([]byte, error) {
	t := e.t
	var attr []byte
	if t.U(3) != 0 {
		if t.U(5) >= 32768 {
			return nil, errRefSize
		}
		if t.U(4) == 1 { // AF = 1: type/value
			attr = append(be16(int(0x8000+t.U(5))), be16(int(t.U(6)))...)
		} else { // AF = 0: type/length/value
			v := t.B(7)
			if len(v) > 65535 {
				return nil, errRefSize
			}
			attr = append(append(be16(int(t.U(5))), be16(len(v))...), v...)
		}
	}
	if 8+len(attr) > 65535 {
		return nil, errRefSize
	}
	more := byte(3)
	if last {
		more = 0
	}
	out := []byte{more, e.r1}
	out = append(out, be16(8+len(attr))...)
	out = append(out, byte(t.U(1)), e.r2)
	out = append(out, be16(int(t.U(2)))...)
	return append(out, attr...), nil
}

// §3.3.1
func refProposal(p *Sx, l pLib, last bool) ([]byte, error) {
	spi := p.B(3)
	if len(spi) > 255 || len(l.emitted) == 0 || len(l.emitted) > 255 {
		return nil, errRefSize
	}
	var td []byte
	for i, e := range l.emitted {
		tb, err := refTransform(e, i == len(l.emitted)-1)
		if err != nil {
			return nil, err
		}
		td = append(td, tb...)
	}
	total := 8 + len(spi) + len(td)
	if total > 65535 {
		return nil, errRefSize
	}
	more := byte(2)
	if last {
		more = 0
	}
	out := []byte{more, l.reserved}
	out = append(out, be16(total)...)
	out = append(out, byte(p.U(1)), byte(p.U(2)), byte(len(spi)), byte(len(l.emitted)))
	out = append(out, spi...)
	return append(out, td...), nil
}

// §3.13.1
func refSelector(t *Sx) ([]byte, error) {
	alen := 0
	switch t.U(1) {
	case 7:
		alen = 4
	case 8:
		alen = 16
	default:
		return nil, errRefSize
	}
	sa, ea := t.B(5), t.B(6)
	if len(sa) != alen || len(ea) != alen {
		return nil, errRefSize
	}
	out := []byte{byte(t.U(1)), byte(t.U(2))}
	out = append(out, be16(8+len(sa)+len(ea))...)
	out = append(out, be16(int(t.U(3)))...)
	out = append(out, be16(int(t.U(4)))...)
	out = append(out, sa...)
	return append(out, ea...), nil
}

func refBody(p *Sx, l payLib) ([]byte, error) {
	switch p.Head() {
	case "SA":
		var out []byte
		ps := p.List[1].List
		for i, pr := range ps {
			pl := canonicalPLib(pr)
			if i < len(l.props) {
				pl = l.props[i]
			}
			pb, err := refProposal(pr, pl, i == len(ps)-1)
			if err != nil {
				return nil, err
			}
			out = append(out, pb...)
		}
		return out, nil
	case "KE": // §3.4
		return append(append(be16(int(p.U(1))), l.r0, l.r1), p.B(2)...), nil
	case "IDi", "IDr", "AUTH": // §3.5, §3.8
		return append([]byte{byte(p.U(1)), l.r0, l.r1, l.r2}, p.B(2)...), nil
	case "CERT", "CERTREQ": // §3.6, §3.7
		return append([]byte{byte(p.U(1))}, p.B(2)...), nil
	case "NONCE", "V": // §3.9, §3.12
		return p.B(1), nil
	case "N": // §3.10
		spi := p.B(3)
		if len(spi) > 255 {
			return nil, errRefSize
		}
		out := []byte{byte(p.U(1)), byte(len(spi))}
		out = append(out, be16(int(p.U(2)))...)
		out = append(out, spi...)
		return append(out, p.B(4)...), nil
	case "D": // §3.11
		spis := p.List[4].List
		if int(p.U(3)) != len(spis) || (len(spis) > 0 && p.U(2) != 4) {
			return nil, errRefSize
		}
		out := []byte{byte(p.U(1)), byte(p.U(2))}
		out = append(out, be16(int(p.U(3)))...)
		for i := range spis {
			v := p.List[4].U(i)
			out = append(out, byte(v>>24), byte(v>>16), byte(v>>8), byte(v))
		}
		return out, nil
	case "TSi", "TSr": // §3.13
		sels := p.List[1].List
		if len(sels) == 0 || len(sels) > 255 {
			return nil, errRefSize
		}
		out := []byte{byte(len(sels)), l.r0, l.r1, l.r2}
		for _, s := range sels {
			sb, err := refSelector(s)
			if err != nil {
				return nil, err
			}
			out = append(out, sb...)
		}
		return out, nil
	case "CP": // §3.15
		out := []byte{byte(p.U(1)), l.r0, l.r1, l.r2}
		for i, a := range p.List[2].List {
			v := a.B(2)
			if a.U(1) >= 32768 || len(v) > 65535 {
				return nil, errRefSize
			}
			ty := int(a.U(1))
			if i < len(l.rbits) && l.rbits[i] {
				ty += 0x8000
			}
			out = append(out, be16(ty)...)
			out = append(out, be16(len(v))...)
			out = append(out, v...)
		}
		return out, nil
	case "EAP": // §3.16: the EAP packet (its own reference: oracle_eap.go, property C14)
		return refEapBytes(p), nil
	}
	return nil, fmt.Errorf("refBody: kind %s", p.Head())
}

// refEncodeMsg: header ‖ chain of generic payload headers, under the liberties libs (nil = canonical)
func refEncodeMsg(sx *Sx, libs []payLib) ([]byte, error) {
	ps := sx.List[2].List
	var chain []byte
	for i, p := range ps {
		var l payLib
		if i < len(libs) {
			l = libs[i]
		}
		body, err := refBody(p, l)
		if err != nil {
			return nil, err
		}
		if 4+len(body) > 65535 {
			return nil, errRefSize
		}
		next := byte(0)
		if i+1 < len(ps) {
			next = payloadTypeByKind[ps[i+1].Head()]
		}
		chain = append(chain, next, l.flags)
		chain = append(chain, be16(4+len(body))...)
		chain = append(chain, body...)
	}
	h := sx.List[1]
	if h.U(3) >= 16 || h.U(4) >= 16 || 28+len(chain) >= 1<<32 {
		return nil, errRefSize
	}
	first := byte(0)
	if len(ps) > 0 {
		first = payloadTypeByKind[ps[0].Head()]
	}
	out := make([]byte, 28)
	binary.BigEndian.PutUint64(out[0:], h.U(1))
	binary.BigEndian.PutUint64(out[8:], h.U(2))
	out[16] = first
	out[17] = byte(16*h.U(3) + h.U(4))
	out[18] = byte(h.U(5))
	out[19] = byte(h.U(6))
	binary.BigEndian.PutUint32(out[20:], uint32(h.U(7)))
	binary.BigEndian.PutUint32(out[24:], uint32(28+len(chain)))
	return append(out, chain...), nil
}

func refEncodeRes(sx *Sx, seed uint64) callRes {
	b, err := refEncodeMsg(sx, deriveLibs(sx, seed))
	if err != nil {
		return callRes{kind: "err"}
	}
	return callRes{kind: "ok", val: hx(b)}
}

// ---------------------------------------------------------------------------
// independent strict parser: datagram -> fields (output form); EAP bodies are returned raw

type refParsed struct {
	hdr      string
	payloads []string // output form of each payload; "(EAPRAW x..)" for EAP
}

func u16at(b []byte, i int) int { return int(b[i])<<8 | int(b[i+1]) }

func refParseTransforms(b []byte, n int) ([5][]string, error) {
	var c [5][]string
	cnt := 0
	for len(b) > 0 {
		if len(b) < 8 {
			return c, errors.New("truncated transform")
		}
		tl := u16at(b, 2)
		if tl < 8 || tl > len(b) {
			return c, fmt.Errorf("transform length %d", tl)
		}
		last := tl == len(b)
		if (last && b[0] != 0) || (!last && b[0] != 3) {
			return c, fmt.Errorf("transform last-substructure marker %d", b[0])
		}
		tt, id := int(b[4]), u16at(b, 6)
		if tt < 1 || tt > 5 {
			return c, fmt.Errorf("transform type %d", tt)
		}
		var s string
		switch {
		case tl == 8:
			s = fmt.Sprintf("(T %d %d 0 0 0 0 x)", tt, id)
		case tl < 12:
			return c, errors.New("attribute shorter than 4 octets")
		case b[8]&0x80 != 0:
			if tl != 12 {
				return c, fmt.Errorf("TV attribute in a transform of length %d", tl)
			}
			s = fmt.Sprintf("(T %d %d 1 1 %d %d x)", tt, id, u16at(b, 8)&0x7fff, u16at(b, 10))
		default:
			al := u16at(b, 10)
			if 12+al != tl {
				return c, fmt.Errorf("TLV attribute length %d in a transform of length %d", al, tl)
			}
			s = fmt.Sprintf("(T %d %d 1 0 %d 0 %s)", tt, id, u16at(b, 8), hx(b[12:tl]))
		}
		c[tt-1] = append(c[tt-1], s)
		cnt++
		b = b[tl:]
	}
	if cnt != n {
		return c, fmt.Errorf("%d transforms, count field %d", cnt, n)
	}
	return c, nil
}

func refParseBody(t byte, b []byte) (string, error) {
	short := errors.New("body too short")
	switch t {
	case 33:
		var ps []string
		for len(b) > 0 {
			if len(b) < 8 {
				return "", errors.New("truncated proposal")
			}
			pl := u16at(b, 2)
			if pl < 8 || pl > len(b) {
				return "", fmt.Errorf("proposal length %d", pl)
			}
			last := pl == len(b)
			if (last && b[0] != 0) || (!last && b[0] != 2) {
				return "", fmt.Errorf("proposal last-substructure marker %d", b[0])
			}
			spi := int(b[6])
			if 8+spi > pl {
				return "", errors.New("SPI overruns the proposal")
			}
			c, err := refParseTransforms(b[8+spi:pl], int(b[7]))
			if err != nil {
				return "", err
			}
			s := fmt.Sprintf("(P %d %d %s", b[4], b[5], hx(b[8:8+spi]))
			for k := 0; k < 5; k++ {
				s += " (" + strings.Join(c[k], " ") + ")"
			}
			ps = append(ps, s+")")
			b = b[pl:]
		}
		return "(SA (" + strings.Join(ps, " ") + "))", nil
	case 34:
		if len(b) < 4 {
			return "", short
		}
		return fmt.Sprintf("(KE %d %s)", u16at(b, 0), hx(b[4:])), nil
	case 35, 36, 39:
		if len(b) < 4 {
			return "", short
		}
		return fmt.Sprintf("(%s %d %s)", map[byte]string{35: "IDi", 36: "IDr", 39: "AUTH"}[t], b[0], hx(b[4:])), nil
	case 37, 38:
		if len(b) < 1 {
			return "", short
		}
		return fmt.Sprintf("(%s %d %s)", map[byte]string{37: "CERT", 38: "CERTREQ"}[t], b[0], hx(b[1:])), nil
	case 40:
		return "(NONCE " + hx(b) + ")", nil
	case 43:
		return "(V " + hx(b) + ")", nil
	case 41:
		if len(b) < 4 || 4+int(b[1]) > len(b) {
			return "", short
		}
		n := 4 + int(b[1])
		return fmt.Sprintf("(N %d %d %s %s)", b[0], u16at(b, 2), hx(b[4:n]), hx(b[n:])), nil
	case 42:
		if len(b) < 4 {
			return "", short
		}
		sz, num := int(b[1]), u16at(b, 2)
		if 4+sz*num != len(b) || (num > 0 && sz != 4) {
			return "", fmt.Errorf("delete: SPI size %d x %d SPIs in %d octets", sz, num, len(b)-4)
		}
		var sp []string
		for i := 0; i < num; i++ {
			sp = append(sp, strconv.FormatUint(uint64(binary.BigEndian.Uint32(b[4+4*i:])), 10))
		}
		return fmt.Sprintf("(D %d %d %d (%s))", b[0], sz, num, strings.Join(sp, " ")), nil
	case 44, 45:
		if len(b) < 4 {
			return "", short
		}
		n := int(b[0])
		b = b[4:]
		var sels []string
		for i := 0; i < n; i++ {
			if len(b) < 8 {
				return "", errors.New("truncated selector")
			}
			sl := u16at(b, 2)
			if sl > len(b) || !((b[0] == 7 && sl == 16) || (b[0] == 8 && sl == 40)) {
				return "", fmt.Errorf("selector type %d length %d", b[0], sl)
			}
			al := (sl - 8) / 2
			sels = append(sels, fmt.Sprintf("(TS %d %d %d %d %s %s)", b[0], b[1], u16at(b, 4), u16at(b, 6), hx(b[8:8+al]), hx(b[8+al:sl])))
			b = b[sl:]
		}
		if len(b) != 0 {
			return "", errors.New("octets after the last selector")
		}
		return fmt.Sprintf("(%s (%s))", map[byte]string{44: "TSi", 45: "TSr"}[t], strings.Join(sels, " ")), nil
	case 47:
		if len(b) < 4 {
			return "", short
		}
		ct := b[0]
		b = b[4:]
		var as []string
		for len(b) > 0 {
			if len(b) < 4 || 4+u16at(b, 2) > len(b) {
				return "", errors.New("truncated configuration attribute")
			}
			al := u16at(b, 2)
			as = append(as, fmt.Sprintf("(A %d %s)", u16at(b, 0)&0x7fff, hx(b[4:4+al])))
			b = b[4+al:]
		}
		return fmt.Sprintf("(CP %d (%s))", ct, strings.Join(as, " ")), nil
	case 48:
		return "(EAPRAW " + hx(b) + ")", nil
	}
	return "", fmt.Errorf("payload type %d", t)
}

func refParseMsg(b []byte) (*refParsed, error) {
	if len(b) < 28 {
		return nil, errors.New("short header")
	}
	if int(binary.BigEndian.Uint32(b[24:28])) != len(b) {
		return nil, errors.New("header length field")
	}
	out := &refParsed{hdr: fmt.Sprintf("(H %d %d %d %d %d %d %d)", binary.BigEndian.Uint64(b[0:8]), binary.BigEndian.Uint64(b[8:16]),
		b[17]>>4, b[17]&15, b[18], b[19], binary.BigEndian.Uint32(b[20:24]))}
	next := b[16]
	rest := b[28:]
	for len(rest) > 0 {
		if len(rest) < 4 {
			return nil, errors.New("truncated generic payload header")
		}
		l := u16at(rest, 2)
		if l < 4 || l > len(rest) {
			return nil, fmt.Errorf("payload length %d", l)
		}
		s, err := refParseBody(next, rest[4:l])
		if err != nil {
			return nil, fmt.Errorf("payload type %d: %v", next, err)
		}
		out.payloads = append(out.payloads, s)
		next = rest[0]
		rest = rest[l:]
	}
	if next != 0 {
		return nil, fmt.Errorf("chain ends with next payload %d", next)
	}
	return out, nil
}

// compare the parse of a datagram with the message it is meant to carry; "" = equal
func refCompare(pr *refParsed, sx *Sx) string {
	m := buildMsg(sx)
	if h := renderHeader(m.IKEHeader).String(); h != pr.hdr {
		return "header fields " + pr.hdr + " instead of " + h
	}
	ps := sx.List[2].List
	if len(ps) != len(pr.payloads) {
		return fmt.Sprintf("%d payloads instead of %d", len(pr.payloads), len(ps))
	}
	for i, p := range ps {
		want := ""
		if p.Head() == "EAP" {
			want = "(EAPRAW " + hx(refEapBytes(p)) + ")"
		} else {
			want = renderPayload(m.Payloads[i]).String()
		}
		if want != pr.payloads[i] {
			return fmt.Sprintf("payload %d: parsed %s instead of %s", i, clip(pr.payloads[i]), clip(want))
		}
	}
	return ""
}

// ---------------------------------------------------------------------------

func c05Msg(g *Gen, i int) *Sx {
	switch {
	case i%40 == 0: // one payload of each kind in turn, big sizes allowed
		return L(A("msg"), g.header(), L(g.payload(payloadKinds[(i/40)%len(payloadKinds)], true)))
	case i%200 == 7: // one payload at the 16-bit payload length limit (body 65530..65532 octets): the limit itself is part of the format
		d := g.r.Intn(3) - 1
		var p *Sx
		switch g.r.Intn(8) {
		case 0:
			p = L(A("NONCE"), X(g.bytes(65531+d)))
		case 1:
			p = L(A("V"), X(g.bytes(65531+d)))
		case 2:
			p = L(A("KE"), N(g.u16()), X(g.bytes(65527+d)))
		case 3:
			p = L(A([]string{"IDi", "IDr", "AUTH"}[g.r.Intn(3)]), N(g.u8()), X(g.bytes(65527+d)))
		case 4:
			p = L(A([]string{"CERT", "CERTREQ"}[g.r.Intn(2)]), N(g.u8()), X(g.bytes(65530+d)))
		case 5:
			p = L(A("N"), N(g.u8()), N(g.u16()), X(g.bytes(8)), X(g.bytes(65519+d)))
		case 6:
			p = L(A("CP"), N(g.u8()), L(L(A("A"), N(g.u15()), X(g.bytes(65523+d)))))
		default:
			p = L(A("SA"), L(L(A("P"), N(g.u8()), N(g.u8()), X(g.bytes(4)), L(L(A("T"), N(1), N(g.u16()), A("1"), N(0), N(g.u15()), N(0), X(g.bytes(65507+d)))), L(), L(), L(), L())))
		}
		return L(A("msg"), g.header(), L(p))
	case i%10 == 3: // liberties live in SA / CP / TS / KE / ID / AUTH: make them frequent
		ps := L()
		for k := 0; k < 1+g.r.Intn(4); k++ {
			ps.List = append(ps.List, g.payload([]string{"SA", "SA", "CP", "CP", "TSi", "TSr", "KE", "IDi", "IDr", "AUTH"}[g.r.Intn(10)], false))
		}
		return L(A("msg"), g.header(), ps)
	}
	return g.msg()
}

func libTags(sx *Sx) []string {
	var tags []string
	for _, p := range sx.List[2].List {
		switch p.Head() {
		case "SA":
			multi := false
			for _, pr := range p.List[1].List {
				n := 0
				for c := 4; c <= 8; c++ {
					if len(pr.List[c].List) > 0 {
						n++
					}
				}
				if n >= 2 {
					multi = true
				}
			}
			if multi {
				tags = append(tags, "lib:transform-order")
			}
			tags = append(tags, "lib:sa-reserved")
		case "CP":
			tags = append(tags, "lib:cp-rbit")
		case "KE", "IDi", "IDr", "AUTH", "TSi", "TSr":
			tags = append(tags, "lib:body-reserved")
		}
	}
	return tags
}

// (a) the implementation's encoding against the independent references
func (c *Ctx) c05Encode(s *SuiteStat, sx *Sx, idx int) callRes {
	m := buildMsg(sx)
	line := "enc msg " + sx.String()
	nontr := len(sx.List[2].List) > 0
	er := encodeMsgRes(m)
	s.add(line, nontr, append(msgTags(sx), "encode:"+er.kind)...)
	bad := func(class, desc, exp, act string) {
		c.violate(Violation{Suite: s.Name, Kind: "property", Index: idx, Class: class, Desc: desc, Input: line, Expected: clip(exp), Actual: clip(act)})
	}
	if er.kind == "panic" {
		bad("panic:encode", "Encode panicked: "+er.val, "ok", "panic")
		return er
	}
	ref := refEncodeRes(sx, 0)
	if er.String() != ref.String() {
		bad("encode-not-rfc", "Encode differs from the independent RFC 7296 encoder (canonical liberties)", ref.String(), er.String())
	}
	if rr := encodeReused(buildMsg(sx)); rr.String() != ref.String() {
		bad("encode-not-rfc:reused-message-object", "Encode of a message object that was used for other messages before (fields and payload list reassigned) differs from the independent RFC 7296 encoder (replay: re-run of the suite with this seed)", ref.String(), rr.String())
	}
	if er.kind != "ok" {
		return er
	}
	bs := unhx(er.val)
	if err := wfWalk(bs); err != nil {
		bad("encode-not-wellformed", "encoded datagram is not a well-formed RFC 7296 datagram: "+err.Error(), "well-formed", hx(bs))
		return er
	}
	pr, err := refParseMsg(bs)
	if err != nil {
		bad("encode-not-parsed", "the independent parser rejects the encoded datagram: "+err.Error(), "parsed", hx(bs))
		return er
	}
	if d := refCompare(pr, sx); d != "" {
		bad("encode-fields-lost", "the independent parser recovers different fields: "+d, renderMsg(m).String(), hx(bs))
	}
	return er
}

// (b) a datagram built by an independent encoder under liberties must decode to the fields it was built from
func (c *Ctx) c05Decode(s *SuiteStat, sx *Sx, seed uint64, bs []byte, src string, idx int) {
	line := fmt.Sprintf("spec-dec %d %s %s", seed, sx.String(), hx(bs))
	want := "ok " + renderMsg(buildMsg(sx)).String()
	dr := runDec(decoders()[0], bs)
	s.add(fmt.Sprintf("spec-enc %d %s", seed, sx.String()), len(sx.List[2].List) > 0, append(libTags(sx), "built-by:"+src, "decode:"+dr.kind)...)
	if dr.String() != want {
		c.violate(Violation{Suite: s.Name, Kind: "property", Index: idx, Class: "spec-built-not-decoded",
			Desc:  "a well-formed datagram built by the independent encoder (" + src + ") under sender's liberties does not decode to the fields it was built from",
			Input: line, Expected: clip(want), Actual: clip(dr.String())})
	}
}

func propC05(c *Ctx) {
	g := NewGen(c.seed)
	sEnc := c.suite("encode-is-rfc", "oracle",
		"type-directed messages of the encodable domain (15 payload kinds, nested SA/TS/CP/EAP, sizes biased to the boundaries; every 40th a single possibly large payload, every 10th only payloads with liberties): Go Encode must equal the independent Go RFC 7296 encoder with canonical liberties, pass the independent framing walk wfWalk (lengths = extents, chain ends in 0, reserved/critical = 0, markers 0/2 and 0/3) and the independent strict parser must recover the fields (EAP: raw packet vs the independent EAP encoder); non-trivial = >= 1 payload; distinct by message")
	sDec := c.suite("spec-built-datagrams", "oracle",
		"for (seed != 0, message) pairs: the datagram built by the independent encoder (lean/IkeModel/Spec/Wire.lean through the driver op spec-enc; the Go reference encoder when no driver is attached) under liberties derived from the seed — flag octet of every generic header (critical + reserved bits), reserved octets of proposal/transform/KE/ID/AUTH/TS/CP, R bit of CP attributes, pseudo-random interleaving of the transforms — is decoded by Go and must render equal to the message; non-trivial = >= 1 payload; distinct by (seed, message)")

	if c.replay != nil {
		in := c.replay.Input
		switch {
		case strings.HasPrefix(in, "enc msg "):
			sx, err := ParseSx(in[len("enc msg "):])
			if err != nil {
				panic(err)
			}
			c.c05Encode(sEnc, sx, 0)
		case strings.HasPrefix(in, "spec-dec "):
			f := strings.SplitN(in, " ", 3)
			seed, _ := strconv.ParseUint(f[1], 10, 64)
			k := strings.LastIndex(f[2], " ")
			sx, err := ParseSx(f[2][:k])
			if err != nil {
				panic(err)
			}
			c.c05Decode(sDec, sx, seed, unhx(f[2][k+1:]), "replay", 0)
		default:
			c.note("replay: unrecognised input")
		}
		return
	}

	var corrEnc, corrRef []corrCase
	type built struct {
		sx   *Sx
		seed uint64
		line string
	}
	var todo []built
	n := c.n(2500, 120000)
	nCorr := c.n(1200, 20000)
	for i := 0; i < n; i++ {
		sx := c05Msg(g, i)
		er := c.c05Encode(sEnc, sx, i)
		text := sx.String()
		nontr := len(sx.List[2].List) > 0
		if i < nCorr && len(text) < 140000 {
			corrEnc = append(corrEnc, corrCase{line: "spec-enc 0 " + text, goRes: er.String(), nontr: nontr, tags: msgTags(sx)})
		}
		if er.kind != "ok" || len(text) >= 140000 {
			continue
		}
		// liberties: two seeds per message (a small one and a large one)
		for k := 0; k < 2; k++ {
			seed := uint64(1 + g.r.Intn(1<<30))
			if k == 0 {
				seed = uint64(1 + g.r.Intn(64))
			}
			line := fmt.Sprintf("spec-enc %d %s", seed, text)
			if len(corrRef) < 2*nCorr {
				corrRef = append(corrRef, corrCase{line: line, goRes: refEncodeRes(sx, seed).String(), nontr: nontr, tags: libTags(sx)})
			}
			todo = append(todo, built{sx, seed, line})
		}
	}

	// phase 2: obtain the datagrams of the independent encoder, feed them to the implementation
	src := "go-ref"
	var lines []string
	if c.driver != "" {
		src = "lean-spec"
		if len(todo) > 4*nCorr {
			// the driver builds the first 4*nCorr datagrams, the Go reference encoder the others
			lines = make([]string, 4*nCorr)
		} else {
			lines = make([]string, len(todo))
		}
		for i := range lines {
			lines[i] = todo[i].line
		}
	}
	var res []string
	if len(lines) > 0 {
		var err error
		if res, err = c.runDriver(lines); err != nil {
			c.violate(Violation{Suite: sDec.Name, Kind: "correspondence", Class: "driver-failure", Desc: err.Error()})
			res = nil
		}
	}
	for i, t := range todo {
		var bs []byte
		from := "go-ref"
		if i < len(res) {
			if !strings.HasPrefix(res[i], "ok x") {
				// the reference encoder must accept what the implementation encodes (checked by go-ref-vs-lean-spec); nothing to decode
				sDec.Dist["spec-enc:"+strings.Fields(res[i] + " -")[0]]++
				continue
			}
			bs = unhx(res[i][3:])
			from = src
		} else {
			b, err := refEncodeMsg(t.sx, deriveLibs(t.sx, t.seed))
			if err != nil {
				sDec.Dist["ref-enc:err"]++
				continue
			}
			bs = b
		}
		c.c05Decode(sDec, t.sx, t.seed, bs, from, i)
	}

	sc := c.suite("encode-vs-rfc-spec", "correspondence",
		"same messages: outcome of Go Encode (bytes or error) = Lean Spec.encode with canonical liberties (driver op `spec-enc 0 <msg>`); non-trivial = >= 1 payload")
	c.correspond(sc, corrEnc)
	sr := c.suite("go-ref-vs-lean-spec", "correspondence",
		"cross-check of the two independent encoders: Go reference encoder (this file) = Lean Spec.encode for the same (seed, message), liberties derived from the seed by the same documented LCG traversal; non-trivial = >= 1 payload")
	c.correspond(sr, corrRef)
}
