package main

// C11, "for every history": the mapping between algorithm names, descriptor objects and wire
// transforms does not depend on which lookups the process made before.  Each child process makes,
// as its very first calls into the library, the decode-from-the-wire and by-name lookups of all
// advertised algorithms in a shuffled order; every outcome must be the one of the RFC table,
// whatever the order (a registry that is filled lazily by one entry point and read by another
// shows up as a decode that fails when it comes first).

import (
	"bufio"
	"bytes"
	"fmt"
	"math/rand"
	"os"
	"os/exec"
	"strconv"
	"strings"

	"github.com/free5gc/ike/message"
)

func c11RowTransform(a c11Alg) *message.Transform {
	t := &message.Transform{TransformType: a.ttype, TransformID: a.id}
	if a.bits > 0 {
		t.AttributePresent = true
		t.AttributeFormat = 1
		t.AttributeType = 14
		t.AttributeValue = uint16(a.bits)
	}
	return t
}

// child: no call into the library before this
func c11FirstUseChild(seed int64) {
	r := rand.New(rand.NewSource(seed))
	type op struct {
		row    int
		byName bool
	}
	var ops []op
	for i := range c11Table {
		ops = append(ops, op{i, false}, op{i, true})
	}
	// half of the runs: all decodes first (a responder), otherwise fully shuffled
	if seed%2 == 0 {
		var dec, nam []op
		for _, o := range ops {
			if o.byName {
				nam = append(nam, o)
			} else {
				dec = append(dec, o)
			}
		}
		r.Shuffle(len(dec), func(i, j int) { dec[i], dec[j] = dec[j], dec[i] })
		r.Shuffle(len(nam), func(i, j int) { nam[i], nam[j] = nam[j], nam[i] })
		ops = append(dec, nam...)
	} else {
		r.Shuffle(len(ops), func(i, j int) { ops[i], ops[j] = ops[j], ops[i] })
	}
	w := bufio.NewWriter(os.Stdout)
	defer w.Flush()
	for pos, o := range ops {
		a := c11Table[o.row]
		var res c11Res
		func() {
			defer func() {
				if p := recover(); p != nil {
					fmt.Fprintf(w, "%d %d %v panic %v\n", pos, o.row, o.byName, p)
					res = c11Res{}
				}
			}()
			if o.byName {
				res = c11ByName(a.kind, a.name)
			} else {
				res = c11DecRaw(a.kind, c11RowTransform(a))
			}
		}()
		fmt.Fprintf(w, "%d %d %v %s\n", pos, o.row, o.byName, res.String())
	}
}

func (c *Ctx) c11FirstUse() {
	s := c.suite("first-use-order", "oracle",
		"child processes whose very first calls into the library are the decode-from-the-wire (DecodeTransform / DecodeTransformChildSA) and by-name (StrToType / StrToKType) lookups of all 19 advertised algorithms in a shuffled order (even seeds: every decode before any by-name lookup): each outcome equals the RFC table entry whatever came before; one evaluation = one lookup in one child; non-trivial = every case")
	self, err := os.Executable()
	if err != nil {
		c.note("first-use-order: %v", err)
		return
	}
	n := 6
	if c.tier == "thorough" {
		n = 40
	}
	for k := 0; k < n; k++ {
		seed := c.seed*1000 + int64(k)
		if c.replay != nil {
			f := strings.Fields(c.replay.Input)
			if len(f) < 2 || f[0] != "c11-first-use" {
				return
			}
			seed, _ = strconv.ParseInt(f[1], 10, 64)
			n = 1
		}
		cmd := exec.Command(self, "-c11child", strconv.FormatInt(seed, 10))
		var out bytes.Buffer
		cmd.Stdout = &out
		cmd.Stderr = &out
		if err := cmd.Run(); err != nil {
			c.violate(Violation{Suite: s.Name, Kind: "property", Class: "first-use-child-failed",
				Desc: "the process whose first library calls are registry lookups failed: " + clip(out.String()), Input: fmt.Sprintf("c11-first-use %d", seed)})
			return
		}
		for _, line := range strings.Split(strings.TrimSpace(out.String()), "\n") {
			f := strings.SplitN(line, " ", 4)
			if len(f) < 4 {
				continue
			}
			row, _ := strconv.Atoi(f[1])
			a := c11Table[row]
			want := c11Res{ok: true, id: a.id, k: a.keyLen, o: a.outLen}
			s.add(line, true, "kind:"+a.kind, "byname:"+f[2])
			if f[3] != want.String() {
				what := "decoding its transform from the wire"
				if f[2] == "true" {
					what = "looking it up by name"
				}
				c.violate(Violation{Suite: s.Name, Kind: "property", Class: "first-use-order",
					Desc:  fmt.Sprintf("advertised algorithm %s (%s): %s as lookup #%s of a new process does not give the RFC table entry", a.name, a.kind, what, f[0]),
					Input: fmt.Sprintf("c11-first-use %d", seed), Expected: want.String(), Actual: f[3]})
				break
			}
		}
	}
}
