package main

// C01, C02, C06, C17 and the unprotect / cipher part of C04.

import (
	"encoding/hex"
	"bytes"
	"encoding/binary"
	"fmt"
	"strings"

	ike "github.com/free5gc/ike"
	"github.com/free5gc/ike/message"
	"github.com/free5gc/ike/security"
)

func init() {
	props["C01"] = propC01
	props["C02"] = propC02
	props["C06"] = propC06
}

func allSuites() []suite {
	var out []suite
	for e := 0; e < 3; e++ {
		for i := 0; i < 3; i++ {
			out = append(out, suite{e, i, (e + i) % 3})
		}
	}
	return out
}

func roleName(r message.Role) string {
	if r == message.Role_Initiator {
		return "I"
	}
	return "R"
}

// a message of the encodable domain whose protected form fits
func (g *Gen) protMsg() *Sx {
	for tries := 0; ; {
		retryCap(&tries, "payload chain encodes")
		s := g.msg()
		m := buildMsg(s)
		if b, err := m.Payloads.Encode(); err == nil && len(b) < 65000 {
			return s
		}
	}
}

func protect(sa *security.IKESAKey, m *message.IKEMessage, role message.Role, rnd []byte, failAt int) (res callRes, rd *detReader) {
	rd = withRand(rnd, failAt, func() {
		res = guard(func() (string, error) {
			b, err := ike.EncodeEncrypt(m, sa, role)
			if err != nil {
				return "", err
			}
			return hxOwn(b), nil
		})
	})
	return
}

// how a receiver that "pre-parsed the header" may have obtained it (rotating): ParseHeader on the datagram, ParseHeader
// on its first 28 octets only, or a header value holding the parsed fields without the payload octets
var hdrVariantCtr int

// unprotect; withHdr: header pre-parsed from the same bytes
func unprotect(sa *security.IKESAKey, b []byte, role message.Role, withHdr bool) callRes {
	roCtr++
	in, changed := roBuf(b, roCtr%2 == 0)
	setCase("unprotect-raw " + roleName(role) + " " + hx(b))
	var h *message.IKEHeader
	var hSnap message.IKEHeader
	call := func() (string, error) {
		m, err := ike.DecodeDecrypt(in, h, sa, role)
		if err != nil {
			return "", err
		}
		return renderMsg(m).String(), nil
	}
	r := guard(func() (string, error) {
		if withHdr {
			var err error
			hdrVariantCtr++
			switch hdrVariantCtr % 3 {
			case 0:
				h, err = message.ParseHeader(in)
			case 1:
				h, err = message.ParseHeader(exact(in[:28]))
			default:
				var p *message.IKEHeader
				if p, err = message.ParseHeader(in); err == nil {
					h = &message.IKEHeader{InitiatorSPI: p.InitiatorSPI, ResponderSPI: p.ResponderSPI, NextPayload: p.NextPayload, MajorVersion: p.MajorVersion,
						MinorVersion: p.MinorVersion, ExchangeType: p.ExchangeType, Flags: p.Flags, MessageID: p.MessageID}
				}
			}
			if err != nil {
				return "", err
			}
			hSnap = *h
			hSnap.PayloadBytes = nil
		}
		return call()
	})
	if r.kind == "panic" {
		return r
	}
	// what the caller handed in is read-only: the datagram buffer (spare capacity included) and the header value
	if w := changed(); w != "" {
		return callRes{kind: "panic", val: "DecodeDecrypt wrote into the datagram buffer it was given: " + w}
	}
	if h != nil {
		now := *h
		now.PayloadBytes = nil
		if fmt.Sprintf("%+v", now) != fmt.Sprintf("%+v", hSnap) {
			return callRes{kind: "panic", val: fmt.Sprintf("DecodeDecrypt changed the header value it was given: %+v -> %+v", hSnap, now)}
		}
	}
	// the same buffer (and header value) presented once more, as after a retransmission or a peek: same outcome
	if roCtr%4 == 1 {
		if r2 := guard(call); r2 != r {
			return callRes{kind: "panic", val: "the same datagram buffer presented a second time gives another outcome: first " + clip(r.String()) + ", then " + clip(r2.String())}
		}
	}
	return r
}

func unprotLine(k *saKeys, role message.Role, withHdr bool, b []byte) string {
	h := 0
	if withHdr {
		h = 1
	}
	return fmt.Sprintf("unprotect %s %s %d %s", k.line(), roleName(role), h, hx(b))
}

// ---------------------------------------------------------------------------

func propC01(c *Ctx) {
	g := NewGen(c.seed)
	s := c.suite("protect-unprotect-roundtrip", "oracle",
		"structured messages of the encodable domain (incl. empty payload list) x 9 suites x both sender roles x random keys/IV/padding: EncodeEncrypt then DecodeDecrypt by the opposite role, header not supplied and header pre-parsed; sender and receivers are separate long-lived objects (5 messages each) alternating with fresh ones, and between messages the long-lived objects are fed input they reject (correct checksum over a missing / short IV, empty or misaligned ciphertext, impossible pad length, undecodable inner chain; tampered; truncated); non-trivial = >= 1 payload; distinct by (suite, role, keys, message)")
	sn := c.suite("no-key-paths", "oracle",
		"EncodeEncrypt/DecodeDecrypt with nil SA keys must equal plain Encode/Decode, including messages with zero payloads; non-trivial = >= 1 payload")
	var corr []corrCase
	perSuite := c.n(25, 1500)
	idx := 0
	for _, st := range allSuites() {
		for _, role := range []message.Role{message.Role_Initiator, message.Role_Responder} {
			var k *saKeys
			var lsa *longSA
			var prevSx *Sx
			var prevRnd []byte
			for i := 0; i < perSuite; i++ {
				var sx *Sx
				if i == 0 {
					sx = L(A("msg"), g.header(), L())
				} else {
					sx = g.protMsg()
				}
				if i%5 == 0 { // one SA object (and one peer object per header mode) serves 5 consecutive messages
					k = g.saKeys(st)
					lsa = &longSA{sender: newSA(k), peers: [2]*security.IKESAKey{newSA(k), newSA(k)}}
				}
				rnd := g.keyBytesRandom(32)
				// a random source that repeats itself is not the library's fault, and the receiver must still hand
				// back each message's own payloads: the 4th message of a group is a same-size variant of the 3rd
				// (one octet of one payload differs), protected under the 3rd's random stream (same padding, same IV)
				if i%5 == 3 && prevSx != nil {
					if v := sameSizeVariant(prevSx); v != nil {
						sx, rnd = v, prevRnd
					}
				}
				// a header field that happens to spell the length of the datagram (what stream framings put in front of
				// a message: RFC 8229 length prefix, non-ESP marker): the 2nd message of a group gets an initiator SPI,
				// responder SPI or Message ID derived from its own protected length
				if i%5 == 1 {
					if pres, _ := protect(newSA(k), buildMsg(sx), role, rnd, -1); pres.kind == "ok" {
						n := uint64(len(pres.val) / 2)
						hdr := sx.List[1]
						switch idx % 6 {
						case 0:
							hdr.List[1] = N(n<<48 | uint64(g.r.Intn(65536)))
						case 1:
							hdr.List[1] = N(n << 32)
						case 2:
							hdr.List[1] = N((n+4)<<48 | uint64(g.r.Intn(65536)))
						case 3:
							hdr.List[2] = N(n)
						case 4:
							hdr.List[1] = N(n<<32 | uint64(g.r.Intn(1<<16)))
						default:
							hdr.List[7] = N(n & 0xFFFFFFFF)
						}
					}
				}
				prevSx, prevRnd = sx, rnd
				lsa.keepPeers = i%5 == 2 || i%5 == 3 // these two go to the SAME long-lived receivers, one after the other
				idx++
				if i%5 == 2 || i%5 == 4 { // traffic the long-lived objects reject, between two genuine messages
					c01Noise(g, k, lsa, role)
				}
				c.c01Case(s, k, lsa, role, sx, rnd, idx, &corr)
			}
		}
	}
	c.sizeLimit(g)
	for i := 0; i < c.n(300, 20000); i++ {
		var sx *Sx
		if i%10 == 0 {
			sx = L(A("msg"), g.header(), L())
		} else {
			sx = g.msg()
		}
		c.c01NoKey(sn, sx, i)
	}
	sc := c.suite("protect-model-vs-impl", "correspondence",
		"same cases: bytes produced by Go EncodeEncrypt under an injected random stream must equal the Lean model's protect output, and unprotect outcomes must agree; non-trivial = >= 1 payload")
	c.correspond(sc, corr)
}

// what a receiver sees between genuine messages: authentic-but-malformed, tampered, truncated and foreign
// input, presented to the long-lived objects (outcomes are C02's / C04's business; here they are history)
func c01Noise(g *Gen, k *saKeys, lsa *longSA, role message.Role) {
	var noise [][]byte
	for i := 0; i < 2; i++ {
		b, _ := g.authMalformed(k, role)
		noise = append(noise, b)
	}
	t := append([]byte{}, noise[0]...)
	t[g.r.Intn(len(t))] ^= 0x40
	noise = append(noise, t, noise[1][:g.r.Intn(len(noise[1]))])
	for hi, peer := range lsa.peers {
		for _, b := range noise {
			guard(func() (string, error) { unprotect(peer, b, !role, hi == 1 && len(b) >= 28); return "", nil })
		}
	}
	b, _ := g.authMalformed(k, !role) // and the sending object receives one in its own receive direction
	guard(func() (string, error) { unprotect(lsa.sender, b, role, false); return "", nil })
}

// the largest messages that still fit the 16-bit SK payload length, per suite (suites of C01 and C06)
func (c *Ctx) sizeLimit(g *Gen) {
	ss := c.suite("size-limit", "oracle",
		"per suite and sender role: a single Vendor ID payload making the inner chain L octets long, for every L in 65440..65500 (quick tier: the 12 lengths around each suite's own limit and every 5th other): EncodeEncrypt must succeed iff 4 + 16 + 16*ceil((L+1)/16) + checksum length <= 65535, what it produces must be opened by the independent reference and unprotected to the original by a fresh peer, and the same inner chain protected by the reference must be accepted; non-trivial = every case")
	for _, st := range allSuites() {
		icv := refIntegOutLen[st.i]
		fits := func(L int) bool { return 4+16+16*((L+1+15)/16)+icv <= 65535 }
		lim := 65440
		for fits(lim + 1) {
			lim++
		}
		k := g.saKeys(st)
		for L := 65440; L <= 65500; L++ {
			if !c.thorough() && (L < lim-6 || L > lim+5) && L%5 != 0 {
				continue
			}
			role := message.Role(L%2 == 0)
			sx := L_(A("msg"), g.header(), L_(L_(A("V"), X(g.keyBytesRandom(L-4)))))
			m := buildMsg(sx)
			caseText := fmt.Sprintf("size-limit suite=%s role=%s inner=%d", st.String(), roleName(role), L)
			setCase(caseText)
			ss.add(caseText, true, "suite:"+st.String(), fmt.Sprintf("fits:%v", fits(L)))
			pres, _ := protect(newSA(k), m, role, g.keyBytesRandom(32), -1)
			if (pres.kind == "ok") != fits(L) || pres.kind == "panic" {
				c.violate(Violation{Suite: ss.Name, Kind: "property", Index: L, Class: "size-limit:" + pres.kind,
					Desc:  fmt.Sprintf("inner payloads of %d octets under suite %s: EncodeEncrypt %s although the protected form %s the 16-bit payload length (replay: re-run of the suite with this seed)", L, st.String(), map[bool]string{true: "succeeds", false: "fails"}[pres.kind == "ok"], map[bool]string{true: "fits", false: "exceeds"}[fits(L)]),
					Input: "", Expected: map[bool]string{true: "ok", false: "err"}[fits(L)], Actual: clip(pres.String())})
				continue
			}
			if fits(L) { // the same inner chain protected by the independent reference: the library has to accept it
				inner, _ := buildMsg(sx).Payloads.Encode()
				pad := (16 - (len(inner)+1)%16) % 16
				hdr := encodeHeaderRef(sx.List[1], 46, nil)
				filler := g.keyBytesRandom(pad)
				padFill(filler, byte(pad), L)
				ref := refBuildSK(k, role, hdr, 43, inner, g.keyBytesRandom(16), filler)
				want := renderMsg(buildMsg(sx)).String()
				if ur := unprotect(newSA(k), ref, !role, L%2 == 0); ur.kind != "ok" || ur.val != want {
					c.violate(Violation{Suite: ss.Name, Kind: "property", Index: L, Class: "size-limit-reference-built:" + ur.kind,
						Desc: fmt.Sprintf("inner payloads of %d octets under suite %s, protected by the independent reference (legal: the SK payload is %d octets): not unprotected to the original", L, st.String(), len(ref)-28), Input: "", Expected: "ok <the message>", Actual: clip(ur.String())})
				}
			}
			if pres.kind == "ok" {
				if o, err := refOpenSK(k, role, unhx(pres.val)); err != nil || len(o.plain) != L {
					c.violate(Violation{Suite: ss.Name, Kind: "property", Index: L, Class: "size-limit-reference-opens",
						Desc: fmt.Sprintf("inner payloads of %d octets under suite %s: the independent reference does not open what EncodeEncrypt produced", L, st.String()), Input: "", Expected: "opened, inner chain of the given size", Actual: fmt.Sprint(err)})
				}
				want := renderMsg(buildMsg(sx)).String()
				if ur := unprotect(newSA(k), unhx(pres.val), !role, L%3 == 0); ur.kind != "ok" || ur.val != want {
					c.violate(Violation{Suite: ss.Name, Kind: "property", Index: L, Class: "size-limit-roundtrip:" + ur.kind,
						Desc: fmt.Sprintf("inner payloads of %d octets under suite %s: the protected message is not unprotected to the original", L, st.String()), Input: "", Expected: "ok <the message>", Actual: clip(ur.String())})
				}
			}
		}
	}
}

// SA objects that live across several messages of one (suite, role, keys) group
type longSA struct {
	sender    *security.IKESAKey
	peers     [2]*security.IKESAKey
	keepPeers bool // this message goes to the long-lived receivers in both header modes
}

func (c *Ctx) c01Case(s *SuiteStat, k *saKeys, lsa *longSA, role message.Role, sx *Sx, rnd []byte, idx int, corr *[]corrCase) {
	m := buildMsg(sx)
	want := renderMsg(m).String()
	nontr := len(sx.List[2].List) > 0
	caseText := fmt.Sprintf("protect %s %s %s %s", k.line(), roleName(role), hx(rnd), sx.String())
	s.add(caseText, nontr, "suite:"+k.st.String(), "role:"+roleName(role), fmt.Sprintf("npayloads:%d", min(len(sx.List[2].List), 9)))
	pres, _ := protect(lsa.sender, m, role, rnd, -1)
	if corr != nil && len(caseText) < 20000 {
		*corr = append(*corr, corrCase{line: caseText, goRes: pres.String(), nontr: nontr, tags: []string{"op:protect"}})
	}
	if pres.kind != "ok" {
		c.violate(Violation{Suite: s.Name, Kind: "property", Index: idx, Class: "protect-fails",
			Desc: "EncodeEncrypt failed on a message of the encodable domain", Input: caseText, Expected: "ok", Actual: pres.String()})
		return
	}
	bs := unhx(pres.val)
	for hi, withHdr := range []bool{false, true} {
		peer := lsa.peers[hi]
		if (idx+hi)%2 == 0 && !lsa.keepPeers {
			peer = newSA(k) // a freshly built peer and a long-lived one must both accept
		}
		ur := unprotect(peer, bs, !role, withHdr)
		if corr != nil && len(bs) < 8000 {
			*corr = append(*corr, corrCase{line: unprotLine(k, !role, withHdr, bs), goRes: ur.String(), nontr: nontr, tags: []string{"op:unprotect"}})
		}
		if ur.kind != "ok" || ur.val != want {
			c.violate(Violation{Suite: s.Name, Kind: "property", Index: idx, Class: "roundtrip:" + ur.kind,
				Desc:  fmt.Sprintf("unprotect by the opposite role (header pre-parsed=%v) does not return the original message", withHdr),
				Input: caseText, Expected: clip("ok " + want), Actual: clip(ur.String())})
			return
		}
	}
}

func (c *Ctx) c01NoKey(s *SuiteStat, sx *Sx, idx int) {
	m1, m2 := buildMsg(sx), buildMsg(sx)
	nontr := len(sx.List[2].List) > 0
	s.add("nokey "+sx.String(), nontr, fmt.Sprintf("npayloads:%d", min(len(sx.List[2].List), 9)))
	plain := encodeMsgRes(m1)
	viaEE := guard(func() (string, error) {
		b, err := ike.EncodeEncrypt(m2, nil, message.Role_Initiator)
		if err != nil {
			return "", err
		}
		return hx(b), nil
	})
	if plain != viaEE {
		c.violate(Violation{Suite: s.Name, Kind: "property", Index: idx, Class: "nokey-encode",
			Desc: "EncodeEncrypt without keys differs from Encode", Input: "nokey " + sx.String(), Expected: clip(plain.String()), Actual: clip(viaEE.String())})
		return
	}
	if plain.kind != "ok" {
		return
	}
	bs := unhx(plain.val)
	dec := runDec(decoders()[0], bs)
	for _, withHdr := range []bool{false, true} {
		dd := unprotect(nil, bs, message.Role_Responder, withHdr)
		if dd != dec {
			c.violate(Violation{Suite: s.Name, Kind: "property", Index: idx, Class: "nokey-decode:" + dd.kind,
				Desc:  fmt.Sprintf("DecodeDecrypt without keys (header pre-parsed=%v) differs from Decode", withHdr),
				Input: "unprotect-nokey " + hx(bs), Expected: clip(dec.String()), Actual: clip(dd.String())})
			return
		}
	}
}

// ---------------------------------------------------------------------------

func propC02(c *Ctx) {
	g := NewGen(c.seed)
	s := c.suite("tamper", "oracle",
		"per protected message (9 suites x both roles): every single-bit flip (exhaustive), every pair of bit flips within the checksum field (exhaustive), every proper prefix, the SK payload (whole and cut to every length 0..checksum length + 4) moved behind unsupported non-critical payloads, extensions by 1..32 octets, random multi-octet edits, header/body splices of two messages under the same keys, unrelated keys, reflection to the sender's own role; SK bodies shorter than the checksum; spy ciphers count Decrypt calls; non-trivial = protected message with >= 1 inner payload; distinct by altered datagram")
	var corr []corrCase
	perSuite := c.n(2, 40)
	idx := 0
	for _, st := range allSuites() {
		for _, role := range []message.Role{message.Role_Initiator, message.Role_Responder} {
			for i := 0; i < perSuite; i++ {
				k := g.saKeys(st)
				var sx, sx2 *Sx
				for {
					sx, sx2 = g.protMsg(), g.protMsg()
					if len(sx.String()) < 1500 && len(sx2.String()) < 1500 {
						break
					}
				}
				if i == 0 {
					sx = L(A("msg"), g.header(), L())
				}
				c.c02Case(s, g, k, role, sx, sx2, &idx, &corr)
			}
		}
	}
	c.c02Large(g)
	c.c02Rekeyed(g)
	sc := c.suite("unprotect-model-vs-impl", "correspondence",
		"sample of the altered datagrams: Go DecodeDecrypt outcome must equal the Lean model's unprotect outcome; non-trivial as above")
	c.correspond(sc, corr)
}

// large protected messages: implementations switch strategy with size (buffering, chunking, parallel work); the
// order "verify, then decrypt" and the refusals must not depend on it
func (c *Ctx) c02Large(g *Gen) {
	s := c.suite("tamper-large", "oracle",
		"per suite (rotating roles): protected messages whose single Vendor ID payload makes the SK body about 1, 4, 8 (±16), 9, 16, 20, 32 and 60 KiB; alterations: one flipped bit in the header, the IV, the first / middle / last ciphertext block and the checksum, cut by 1 / 16 octets and to half, extended by 1 / 16 octets, protected under unrelated keys, reflected to the sender's role; each must be refused with the spy cipher's Decrypt count at 0, the genuine one accepted with count 1; non-trivial = every case; distinct by altered datagram")
	idx := 0
	sizes := []int{1000, 4096, 8192 - 64, 8192 - 16, 8192, 9000, 16384, 20000, 32768, 60000}
	for n, st := range allSuites() {
		sender := message.Role(n%2 == 0)
		k := g.saKeys(st)
		for j, sz := range sizes {
			if !c.thorough() && (n+j)%3 != 0 {
				continue
			}
			sx := L(A("msg"), g.header(), L(L(A("V"), X(g.keyBytesRandom(sz)))))
			p1, _ := protect(newSA(k), buildMsg(sx), sender, g.keyBytesRandom(32), -1)
			if p1.kind != "ok" {
				continue
			}
			m1 := unhx(p1.val)
			sa := newSA(k)
			si, sr := installSpies(sa)
			chk := func(alt []byte, what string) {
				idx++
				c.c02Check(s, k, sa, si, sr, !sender, m1, alt, what, idx, true, nil, false)
			}
			chk(m1, "genuine")
			icv := refIntegOutLen[st.i]
			for _, p := range []int{5, 20, 28 + 4 + 3, 28 + 4 + 16 + 1, len(m1) / 2, len(m1) - icv - 16, len(m1) - icv - 1, len(m1) - icv, len(m1) - 1} {
				if p >= 0 && p < len(m1) {
					alt := append([]byte{}, m1...)
					alt[p] ^= 1 << uint(p%8)
					chk(alt, "bitflip")
				}
			}
			chk(m1[:len(m1)-1], "prefix")
			chk(m1[:len(m1)-16], "prefix")
			chk(m1[:len(m1)/2], "prefix")
			chk(append(append([]byte{}, m1...), 0), "extension")
			chk(append(append([]byte{}, m1...), g.keyBytesRandom(16)...), "extension")
			if un, _ := protect(newSA(g.saKeysUnrelated(k)), buildMsg(sx), sender, g.keyBytesRandom(32), -1); un.kind == "ok" {
				chk(unhx(un.val), "crosskey")
			}
			// reflection: the receiver's role presented with a message of its own direction
			idx++
			c.c02Check(s, k, sa, si, sr, sender, nil, m1, "reflect", idx, true, nil, false)
		}
	}
}

// SA objects that obtained their keys the way the library provides (GenerateKeyForIKESA), some of them twice: an object
// re-keyed in place holds the NEW keys and nothing of the old ones
func (c *Ctx) c02Rekeyed(g *Gen) {
	s := c.suite("objects-keyed-by-the-library", "oracle",
		"per suite and role: an IKESAKey keyed by GenerateKeyForIKESA (inputs A), and one keyed with inputs A and then re-keyed in place with inputs B: a message protected under the reference keys of the object's current inputs must be accepted, messages under any other key set (the former inputs A, unrelated keys) and the reflected message must be refused, what the object protects must be accepted by a reference-keyed peer; non-trivial = every case; distinct by (suite, inputs)")
	for _, st := range allSuites() {
		for rep := 0; rep < c.n(2, 30); rep++ {
			a, b := g.kdInputs(rep%3), g.kdInputs(3+rep%3)
			for len(a.nonce) == 0 || len(a.secret) == 0 || len(b.nonce) == 0 || len(b.secret) == 0 {
				a, b = g.kdInputs(0), g.kdInputs(4)
			}
			for variant := 0; variant < 2; variant++ {
				obj := kdBlankSA(st, rep%2)
				cur := a
				text := fmt.Sprintf("keyed-by-library suite=%s %s", st.String(), kdIkeLine("ikekeys", st, a.nonce, a.secret, a.spiI, a.spiR))
				if r := kdDerive(obj, a.nonce, a.secret, a.spiI, a.spiR); r.kind != "ok" {
					continue // C07 owns the derivation itself
				}
				if variant == 1 {
					if r := kdDerive(obj, b.nonce, b.secret, b.spiI, b.spiR); r.kind != "ok" {
						continue
					}
					cur = b
					text += " then re-keyed " + kdIkeLine("ikekeys", st, b.nonce, b.secret, b.spiI, b.spiR)
				}
				kCur := kdRefIkeKeys(st, cur.nonce, cur.secret, cur.spiI, cur.spiR)
				kOld := kdRefIkeKeys(st, a.nonce, a.secret, a.spiI, a.spiR)
				setCase(text)
				for _, sender := range []message.Role{message.Role_Initiator, message.Role_Responder} {
					s.add(text+" "+roleName(sender), true, "suite:"+st.String(), fmt.Sprintf("rekeyed:%v", variant == 1))
					sx := g.smallMsg()
					want := "ok " + renderMsg(buildMsg(sx)).String()
					bad := func(class, desc, exp, act string) {
						c.violate(Violation{Suite: s.Name, Kind: "property", Class: class, Desc: desc + " (replay: re-run of the suite with this seed)", Input: "", Expected: clip(exp), Actual: clip(text + " -> " + act)})
					}
					good, _ := protect(newSA(kCur), buildMsg(sx), sender, g.keyBytesRandom(32), -1)
					if good.kind != "ok" {
						continue
					}
					if r := unprotect(obj, unhx(good.val), !sender, variant == 1); r.String() != want {
						bad("library-keyed-object-rejects-genuine", "a message protected under the keys RFC 7296 prescribes for the object's inputs is not accepted by the object", want, r.String())
						continue
					}
					if r := unprotect(obj, unhx(good.val), sender, false); r.kind != "err" {
						bad("accepted:reflect", "the object accepts a message in the role that produced it", "err", r.String())
					}
					if variant == 1 {
						old, _ := protect(newSA(kOld), buildMsg(sx), sender, g.keyBytesRandom(32), -1)
						if r := unprotect(obj, unhx(old.val), !sender, false); old.kind == "ok" && r.kind != "err" {
							bad("accepted:former-keys", "an object re-keyed in place still accepts a message protected under its FORMER keys", "err", r.String())
						}
					}
					un, _ := protect(newSA(g.saKeysUnrelated(kCur)), buildMsg(sx), sender, g.keyBytesRandom(32), -1)
					if r := unprotect(obj, unhx(un.val), !sender, false); un.kind == "ok" && r.kind != "err" {
						bad("accepted:crosskey", "the object accepts a message protected under unrelated keys", "err", r.String())
					}
					own, _ := protect(obj, buildMsg(sx), sender, g.keyBytesRandom(32), -1)
					if own.kind != "ok" {
						bad("library-keyed-object-protect-fails", "EncodeEncrypt fails on the object", "ok", own.String())
						continue
					}
					if r := unprotect(newSA(kCur), unhx(own.val), !sender, true); r.String() != want {
						bad("library-keyed-object-output-rejected", "what the object protects is not accepted by a holder of the keys RFC 7296 prescribes for its inputs", want, r.String())
					}
				}
			}
		}
	}
}

func (c *Ctx) c02Check(s *SuiteStat, k *saKeys, sa *security.IKESAKey, si, sr *spyCrypto, role message.Role, genuine, alt []byte, what string, idx int, nontr bool, corr *[]corrCase, sample bool) {
	withHdr := idx%2 == 1
	if len(alt) < 28 {
		withHdr = false // the property restricts a supplied header to one parsed from the same bytes
	}
	si.decrypts, sr.decrypts = 0, 0
	r := unprotect(sa, alt, role, withHdr)
	line := unprotLine(k, role, withHdr, alt)
	s.add(line, nontr, "alt:"+what, "outcome:"+r.kind)
	if corr != nil && sample {
		*corr = append(*corr, corrCase{line: line, goRes: r.String(), nontr: nontr, tags: []string{"alt:" + what}})
	}
	if r.kind == "panic" {
		c.violate(Violation{Suite: s.Name, Kind: "property", Index: idx, Class: "panic:unprotect",
			Desc: "DecodeDecrypt panicked on an altered protected message (" + what + "): " + r.val, Input: line, Expected: "err", Actual: "panic"})
		return
	}
	if bytes.Equal(alt, genuine) {
		return
	}
	if si.decrypts+sr.decrypts > 0 {
		c.violate(Violation{Suite: s.Name, Kind: "property", Index: idx, Class: "decrypt-before-verify",
			Desc: "ciphertext of a non-genuine datagram was handed to the cipher (" + what + ")", Input: line, Expected: "0 Decrypt calls", Actual: fmt.Sprintf("%d", si.decrypts+sr.decrypts)})
		return
	}
	presentsSK := len(alt) >= 28 && alt[16] == 46 || what == "displaced-sk"
	if !presentsSK {
		// handled as an unprotected datagram: same outcome as with no key at all
		r0 := unprotect(nil, alt, role, withHdr)
		if r0 != r {
			c.violate(Violation{Suite: s.Name, Kind: "property", Index: idx, Class: "not-sk-differs",
				Desc: "datagram not presenting SK is not handled like an unprotected datagram (" + what + ")", Input: line, Expected: clip(r0.String()), Actual: clip(r.String())})
		}
		return
	}
	if r.kind == "ok" {
		c.violate(Violation{Suite: s.Name, Kind: "property", Index: idx, Class: "accepted:" + what,
			Desc: "altered protected message was accepted (" + what + ")", Input: line, Expected: "err", Actual: clip(r.String())})
	}
}

func (c *Ctx) c02Case(s *SuiteStat, g *Gen, k *saKeys, sender message.Role, sx, sx2 *Sx, idx *int, corr *[]corrCase) {
	nontr := len(sx.List[2].List) > 0
	p1, _ := protect(newSA(k), buildMsg(sx), sender, g.keyBytesRandom(32), -1)
	p2, _ := protect(newSA(k), buildMsg(sx2), sender, g.keyBytesRandom(32), -1)
	if p1.kind != "ok" || p2.kind != "ok" {
		c.violate(Violation{Suite: s.Name, Kind: "property", Index: *idx, Class: "protect-fails", Desc: "EncodeEncrypt failed", Input: sx.String(), Expected: "ok", Actual: p1.String()})
		return
	}
	m1, m2 := unhx(p1.val), unhx(p2.val)
	recv := !sender
	sa := newSA(k)
	si, sr := installSpies(sa)
	chk := func(alt []byte, what string, sample bool) {
		if what == "splice" && bytes.Equal(alt, m2) {
			return // the "splice" is the second genuine message itself (cut points 0 / 0, or equal headers)
		}
		*idx++
		c.c02Check(s, k, sa, si, sr, recv, m1, alt, what, *idx, nontr, corr, sample)
	}
	// genuine first: must be accepted (sanity of the harness; C01 is the owner)
	chk(m1, "genuine", true)
	// every single-bit flip
	for p := 0; p < len(m1); p++ {
		for b := 0; b < 8; b++ {
			alt := append([]byte{}, m1...)
			alt[p] ^= 1 << uint(b)
			chk(alt, "bitflip", (p*8+b)%29 == 0)
		}
	}
	// every pair of bit flips inside the checksum field (an edit the comparison must not let cancel out),
	// and every pair of one checksum bit with one bit of the last ciphertext block
	icv := refIntegOutLen[k.st.i]
	if icv <= len(m1) {
		base := len(m1) - icv
		for a := 0; a < icv*8; a++ {
			for b := a + 1; b < icv*8; b++ {
				alt := append([]byte{}, m1...)
				alt[base+a/8] ^= 1 << uint(a%8)
				alt[base+b/8] ^= 1 << uint(b%8)
				chk(alt, "icv-bitpair", (a*131+b)%997 == 0)
			}
		}
	}
	// every proper prefix
	for l := 0; l < len(m1); l++ {
		chk(m1[:l], "prefix", l%7 == 0)
	}
	// the SK payload of the genuine message (whole, or cut to 0..checksum length + 4 octets) moved behind 1..2
	// unsupported non-critical payloads that the chain walker skips: the datagram still presents an Encrypted payload
	for cut := -1; cut <= icv+4; cut++ {
		body := m1[32:]
		if cut >= 0 {
			if cut > len(body) {
				break
			}
			body = body[:cut]
		}
		var els []chainElem
		for n := 1 + (cut+1)%2; n > 0; n-- {
			els = append(els, chainElem{typ: uint8(g.pick(1, 5, 32, 49, 127, 200, 255)), body: g.bytes(g.r.Intn(6))})
		}
		els = append(els, chainElem{typ: 46, body: body})
		alt := append(append([]byte{}, m1[:28]...), encodeChainRef(els)...)
		alt[16] = els[0].typ
		binary.BigEndian.PutUint32(alt[24:28], uint32(len(alt)))
		alt[28+4*0+len(encodeChainRef(els[:len(els)-1]))] = m1[28] // the SK payload's own next-payload field as in the genuine message
		chk(alt, "displaced-sk", true)
	}
	// extensions
	for e := 1; e <= 32; e++ {
		ext := g.bytes(e)
		if e == 4 {
			ext = []byte{0, 0, 0, 4}
		}
		chk(append(append([]byte{}, m1...), ext...), "extend", e%5 == 0)
	}
	// random multi-octet edits
	for i := 0; i < c.n(60, 600); i++ {
		alt := g.mutate(m1)
		chk(alt, "edit", i%4 == 0)
	}
	// splices: header of one, body of the other; prefix of one + suffix of other
	chk(append(append([]byte{}, m1[:28]...), m2[28:]...), "splice", true)
	chk(append(append([]byte{}, m2[:28]...), m1[28:]...), "splice", true)
	for i := 0; i < c.n(10, 100); i++ {
		a, b := g.r.Intn(len(m1)+1), g.r.Intn(len(m2)+1)
		chk(append(append([]byte{}, m1[:a]...), m2[b:]...), "splice", i%3 == 0)
	}
	// SK body shorter than the checksum
	for l := 0; l < 20; l++ {
		alt := append([]byte{}, m1[:28]...)
		body := g.bytes(l)
		alt = append(alt, m1[28], 0, byte((4+l)>>8), byte(4+l))
		alt = append(alt, body...)
		alt[24], alt[25], alt[26], alt[27] = 0, 0, byte(len(alt)>>8), byte(len(alt))
		chk(alt, "short-sk", true)
	}
	// unrelated keys
	for i := 0; i < 3; i++ {
		k2 := g.saKeysUnrelated(k)
		sa2 := newSA(k2)
		si2, sr2 := installSpies(sa2)
		*idx++
		r := unprotect(sa2, m1, recv, false)
		s.add(unprotLine(k2, recv, false, m1), nontr, "alt:crosskey", "outcome:"+r.kind)
		if r.kind != "err" || si2.decrypts+sr2.decrypts > 0 {
			c.violate(Violation{Suite: s.Name, Kind: "property", Index: *idx, Class: "crosskey:" + r.kind,
				Desc: "genuine message accepted (or decrypted) under unrelated keys", Input: unprotLine(k2, recv, false, m1), Expected: "err", Actual: clip(r.String())})
		}
	}
	// reflection: presented to the role that produced it
	{
		*idx++
		si.decrypts, sr.decrypts = 0, 0
		r := unprotect(sa, m1, sender, false)
		s.add(unprotLine(k, sender, false, m1), nontr, "alt:reflect", "outcome:"+r.kind)
		if corr != nil {
			*corr = append(*corr, corrCase{line: unprotLine(k, sender, false, m1), goRes: r.String(), nontr: nontr, tags: []string{"alt:reflect"}})
		}
		if r.kind != "err" || si.decrypts+sr.decrypts > 0 {
			c.violate(Violation{Suite: s.Name, Kind: "property", Index: *idx, Class: "reflect:" + r.kind,
				Desc: "genuine message accepted (or decrypted) by the role that produced it", Input: unprotLine(k, sender, false, m1), Expected: "err", Actual: clip(r.String())})
		}
	}
}

// ---------------------------------------------------------------------------

func propC06(c *Ctx) {
	g := NewGen(c.seed)
	s := c.suite("sk-layout-vs-reference", "oracle",
		"Go EncodeEncrypt output opened by an independent stdlib-only RFC 7296 s3.14 reference (length fields, next-payload, HMAC over all preceding octets under the sender's key, CBC under the sender's key, padding + pad-length octet, inner chain = plain encoding of the payloads); 9 suites x both roles; non-trivial = >= 1 payload")
	s2 := c.suite("reference-built-sk", "oracle",
		"messages built by the reference with every pad length 0..255 compatible with the block size and arbitrary pad octets, fed to Go DecodeDecrypt (both header modes); non-trivial = >= 1 payload; distinct by datagram")
	var corr []corrCase
	idx := 0
	per := c.n(12, 600)
	c.sizeLimit(g)
	for _, st := range allSuites() {
		for _, role := range []message.Role{message.Role_Initiator, message.Role_Responder} {
			var k *saKeys
			var lsa *longSA
			for i := 0; i < per; i++ {
				idx++
				if i%4 == 0 { // one sender / receiver object serves 4 consecutive messages
					k = g.saKeys(st)
					lsa = &longSA{sender: newSA(k), peers: [2]*security.IKESAKey{newSA(k), newSA(k)}}
				}
				sx := g.protMsg()
				if i == 0 {
					sx = L(A("msg"), g.header(), L())
				}
				c.c06Case(s, s2, g, k, lsa, role, sx, idx, &corr)
			}
		}
	}
	// RFC 7296 s1.5 / s2.21 single out particular notifications, exchange types and the Initiator / Response bits (what
	// is sent outside an SA, what an INFORMATIONAL may carry): an implementation may do so as well.  With a key,
	// EncodeEncrypt must protect all of them alike.
	sw := c.suite("single-notify-sweep", "oracle",
		"messages with exactly one Notify payload: every integer literal of the current source that fits 16 bits as the Notify type x every one that fits 8 bits (and 34..37) as the exchange type x the four combinations of the Initiator and Response flags (+ one random flag octet), rotating over the 9 suites and both roles; each opened by the independent reference like any other message; non-trivial = every case")
	var ntypes, etypes []uint64
	for _, v := range dictInts {
		if v <= 0xFFFF {
			ntypes = append(ntypes, v)
		}
		if v <= 0xFF {
			etypes = append(etypes, v)
		}
	}
	if len(ntypes) == 0 {
		ntypes, etypes = []uint64{1, 4, 5, 7, 9, 11, 14, 16384, 16385}, []uint64{34, 35, 36, 37}
	}
	if !c.thorough() && len(etypes) > 12 { // quick tier: the defined exchange types and a rotating sample of the rest
		keep := []uint64{34, 35, 36, 37}
		for i := 0; i < 8; i++ {
			keep = append(keep, etypes[(int(c.seed)+i*7)%len(etypes)])
		}
		etypes = keep
	}
	suites := allSuites()
	n := 0
	for _, nt := range ntypes {
		for _, et := range etypes {
			for _, fl := range []uint64{0, 8, 32, 40, uint64(g.r.Intn(256))} {
				n++
				st := suites[n%len(suites)]
				role := message.Role(n%2 == 0)
				k := g.saKeys(st)
				lsa := &longSA{sender: newSA(k), peers: [2]*security.IKESAKey{newSA(k), newSA(k)}}
				spi := []byte(nil)
				if n%3 == 0 {
					spi = g.keyBytesRandom(4)
				}
				sx := L(A("msg"), L(A("H"), N(g.u64()), N(g.u64()), N(2), N(0), N(et), N(fl), N(g.u32())),
					L(L(A("N"), N(uint64(n%4)), N(nt), X(spi), X(g.keyBytesRandom(n%5)))))
				idx++
				c.c06Case(sw, s2, g, k, lsa, role, sx, idx, nil)
			}
		}
	}
	sc := c.suite("sk-model-vs-impl", "correspondence",
		"reference-built datagrams with arbitrary legal padding: Go DecodeDecrypt outcome must equal the Lean model's; Go EncodeEncrypt bytes must equal the Lean RFC spec's SK message; non-trivial = >= 1 payload")
	c.correspond(sc, corr)
}

func (c *Ctx) c06Case(s, s2 *SuiteStat, g *Gen, k *saKeys, lsa *longSA, role message.Role, sx *Sx, idx int, corr *[]corrCase) {
	nontr := len(sx.List[2].List) > 0
	m := buildMsg(sx)
	want := renderMsg(m).String()
	innerC := buildPayloads(sx.List[2])
	inner, err := innerC.Encode()
	if err != nil {
		return
	}
	var first uint8
	if len(m.Payloads) > 0 {
		first = uint8(m.Payloads[0].Type())
	}
	hdrPlain, _ := (&message.IKEMessage{IKEHeader: buildHeader(sx.List[1])}).Encode()
	rnd := g.keyBytesRandom(32)
	caseText := fmt.Sprintf("protect %s %s %s %s", k.line(), roleName(role), hx(rnd), sx.String())
	s.add(caseText, nontr, "suite:"+k.st.String(), "role:"+roleName(role))
	pres, rd := protect(lsa.sender, m, role, rnd, -1)
	if pres.kind != "ok" {
		c.violate(Violation{Suite: s.Name, Kind: "property", Index: idx, Class: "protect-fails", Desc: "EncodeEncrypt failed", Input: caseText, Expected: "ok", Actual: pres.String()})
		return
	}
	if corr != nil && len(caseText) < 20000 {
		*corr = append(*corr, corrCase{line: "spec-sk " + caseText[len("protect "):], goRes: pres.String(), nontr: nontr, tags: []string{"op:spec-sk"}})
	}
	bs := unhx(pres.val)
	ref, err := refOpenSK(k, role, bs)
	fail := func(desc string) {
		c.violate(Violation{Suite: s.Name, Kind: "property", Index: idx, Class: "sk-layout", Desc: desc, Input: caseText, Expected: "RFC 7296 s3.14 layout", Actual: clip(hx(bs))})
	}
	if err != nil {
		fail("independent reference cannot open the message: " + err.Error())
		return
	}
	if !bytes.Equal(ref.plain, inner) {
		fail("decrypted inner payloads differ from the plain encoding of the payload list")
		return
	}
	if ref.next != first {
		fail(fmt.Sprintf("SK next-payload %d != first inner payload type %d", ref.next, first))
		return
	}
	if !bytes.Equal(ref.hdr[:16], hdrPlain[:16]) || !bytes.Equal(ref.hdr[17:24], hdrPlain[17:24]) {
		fail("cleartext header fields differ")
		return
	}
	if len(ref.pad) > 15 {
		fail("more padding than needed")
		return
	}
	// the IV must be the 16 octets drawn from the random source after the padding draw
	if len(rd.served) < 16 || !bytes.Equal(ref.iv, rd.served[len(rd.served)-16:]) {
		fail("IV is not the last 16 octets drawn from the random source")
		return
	}
	// reference-built messages with arbitrary legal padding
	minPad := (16 - (len(inner)+1)%16) % 16
	var pads []int
	for p := minPad; p <= 255; p += 16 {
		pads = append(pads, p)
	}
	if !c.thorough() && len(pads) > 4 {
		pads = []int{pads[0], pads[1], pads[len(pads)/2], pads[len(pads)-1]}
	}
	for _, pl := range pads {
		pad := g.bytes(pl)
		padFill(pad, byte(pl), idx+pl/16) // random, or one of the filler conventions of other implementations
		iv := g.keyBytesRandom(16)
		rb := refBuildSK(k, role, hdrPlain, first, inner, iv, pad)
		if len(rb) > 65535 {
			continue
		}
		for hi, withHdr := range []bool{false, true} {
			peer := lsa.peers[hi]
			if (idx+hi+pl)%2 == 0 {
				peer = newSA(k)
			}
			ur := unprotect(peer, rb, !role, withHdr)
			line := unprotLine(k, !role, withHdr, rb)
			s2.add(line, nontr, fmt.Sprintf("padlen:%d", pl/16*16))
			if corr != nil && len(rb) < 6000 && withHdr {
				*corr = append(*corr, corrCase{line: line, goRes: ur.String(), nontr: nontr, tags: []string{"op:unprotect-ref"}})
			}
			if ur.kind != "ok" || ur.val != want {
				c.violate(Violation{Suite: s2.Name, Kind: "property", Index: idx, Class: "ref-built-rejected:" + ur.kind,
					Desc:  fmt.Sprintf("reference-built protected message (pad length %d, header pre-parsed=%v) is not decoded to the original payloads", pl, withHdr),
					Input: line, Expected: clip("ok " + want), Actual: clip(ur.String())})
				return
			}
		}
	}
}

// ---------------------------------------------------------------------------
// C04: unprotect and cipher entry points on arbitrary bytes

func (c *Ctx) c04Unprotect(g *Gen) {
	s := c.suite("unprotect-arbitrary", "oracle",
		"DecodeDecrypt on malformed datagrams with any key set (9 suites, both roles, header parsed from the same bytes or not supplied, and nil keys), SK bodies of every length 0..80, genuine messages long and short in turn (every outcome on the long-lived key object = the outcome on a newly built one), consistent chains in which the SK payload (genuine, short or random body) stands behind and/or in front of other payloads (unsupported ones that the walker skips, Nonce, Vendor ID), SK bodies 1..4 octets shorter than the checksum whose datagram tail is nevertheless the correct truncated HMAC over what precedes it (found by a Message ID search), and IKECrypto.Decrypt on every ciphertext length 0..96 x all 256 recovered pad-length octets; non-trivial = input >= 4 octets")
	idx := 0
	var corr []corrCase
	for _, st := range allSuites() {
		k := g.saKeys(st)
		sa := newSA(k)
		for i := 0; i < c.n(150, 6000); i++ {
			idx++
			role := message.Role(i%2 == 0)
			var in []byte
			switch i % 5 {
			case 0:
				in = g.bytes(g.r.Intn(90))
			case 1: // header + SK payload with a body of every small length
				l := i / 5 % 81
				in = append(make([]byte, 28), 0, 0, byte((4+l)>>8), byte(4+l))
				in[16] = 46
				in = append(in, g.bytes(l)...)
				in[27] = byte(len(in))
			case 3: // genuine messages, long and short in turn, through the same long-lived object
				var sx *Sx
				if i%10 == 3 {
					sx = L(A("msg"), g.header(), L(L(A("V"), X(g.keyBytesRandom(200+g.r.Intn(1500))))))
				} else {
					sx = L(A("msg"), g.header(), L(L(A("NONCE"), X(g.keyBytesRandom(1+g.r.Intn(20))))))
				}
				p, _ := protect(newSA(k), buildMsg(sx), !role, g.keyBytesRandom(32), -1)
				if p.kind != "ok" {
					continue
				}
				in = unhx(p.val)
			case 2: // a well-formed chain in which the SK payload is NOT the first payload (or is followed by others)
				in = g.displacedSK(k, !role)
				if i%25 == 2 { // SK body shorter than the checksum, the datagram's tail a correct HMAC over what precedes it
					if sr := selfRefShortSK(g, k, !role, refIntegOutLen[k.st.i]-1-(i/25)%4); sr != nil {
						in = sr
					}
				}
			default:
				p, _ := protect(newSA(k), buildMsg(g.protMsg()), !role, g.keyBytesRandom(32), -1)
				if p.kind != "ok" {
					continue
				}
				in = g.mutate(unhx(p.val))
			}
			if len(in) > 70000 {
				continue
			}
			withHdr := i%3 == 0 && len(in) >= 28
			var r callRes
			if i%11 == 10 {
				r = unprotect(nil, in, role, withHdr)
			} else {
				r = unprotect(sa, in, role, withHdr)
				// the outcome is a function of the datagram (and the keys): the long-lived object and a newly built one agree
				if rf := unprotect(newSA(k), in, role, withHdr); rf != r && r.kind != "panic" {
					c.violate(Violation{Suite: s.Name, Kind: "property", Index: idx, Class: "unprotect-depends-on-earlier-datagrams",
						Desc:  "DecodeDecrypt of this datagram on a key object that processed other datagrams before differs from DecodeDecrypt on a newly built object with the same keys (replay: re-run of the suite with this seed)",
						Input: unprotLine(k, role, withHdr, in), Expected: clip("new object: " + rf.String()), Actual: clip("used object: " + r.String())})
				}
				if len(in) < 3000 && i%3 == 0 {
					corr = append(corr, corrCase{line: unprotLine(k, role, withHdr, in), goRes: r.String(), nontr: len(in) >= 4})
				}
			}
			s.add("unprotect "+hx(in), len(in) >= 4, "outcome:"+r.kind)
			if r.kind == "panic" {
				c.violate(Violation{Suite: s.Name, Kind: "property", Index: idx, Class: "panic:unprotect",
					Desc: "DecodeDecrypt panicked: " + r.val, Input: unprotLine(k, role, withHdr, in), Expected: "value or error", Actual: "panic"})
			}
		}
		// cipher Decrypt: all lengths 0..96, and for aligned lengths all 256 values of the recovered pad octet
		ke := k.ei
		obj, _ := sa.EncrInfo.NewCrypto(ke)
		for l := 0; l <= 96; l++ {
			variants := 1
			if l >= 32 && (l-16)%16 == 0 {
				variants = 256
			}
			for v := 0; v < variants; v++ {
				idx++
				var ct []byte
				if variants == 256 {
					// choose plaintext whose last octet is v, encrypt under a random IV with the stdlib
					pt := g.keyBytesRandom(l - 16)
					pt[len(pt)-1] = byte(v)
					ct = refCBCEncrypt(ke, g.keyBytesRandom(16), pt)
				} else {
					ct = g.keyBytesRandom(l)
				}
				in := exact(ct)
				r := guard(func() (string, error) {
					p, err := obj.Decrypt(in)
					if err != nil {
						return "", err
					}
					return hx(p), nil
				})
				line := fmt.Sprintf("cbc-decrypt %s %s", hx(ke), hx(ct))
				s.add(line, true, "outcome:"+r.kind, "op:cbc-decrypt")
				if v%16 == 0 {
					corr = append(corr, corrCase{line: line, goRes: r.String(), nontr: true})
				}
				if r.kind == "panic" {
					c.violate(Violation{Suite: s.Name, Kind: "property", Index: idx, Class: "panic:cbc-decrypt",
						Desc: "IKECrypto.Decrypt panicked: " + r.val, Input: line, Expected: "value or error", Actual: "panic"})
				}
			}
		}
	}
	sc := c.suite("unprotect-model-vs-impl", "correspondence", "sample of the above: Go outcome = Lean model outcome")
	c.correspond(sc, corr)
}

// displacedSK: header + a consistent payload chain in which an SK payload stands behind 1..3 other payloads
// (unsupported non-critical ones, which the chain walker skips, or Nonce / Vendor ID) and/or in front of further
// ones; the SK body is a genuine one, a short one (0..checksum length + 20 octets), or random
func (g *Gen) displacedSK(k *saKeys, sender message.Role) []byte {
	icv := refIntegOutLen[k.st.i]
	var body []byte
	switch g.r.Intn(4) {
	case 0:
		for tries := 0; body == nil; {
			retryCap(&tries, "EncodeEncrypt of a small message")
			if p, _ := protect(newSA(k), buildMsg(g.smallMsg()), sender, g.keyBytesRandom(32), -1); p.kind == "ok" {
				body = unhx(p.val)[32:]
			}
		}
	case 1:
		body = g.bytes(g.r.Intn(icv + 21))
	case 2:
		body = g.bytes(g.pick(0, 1, icv-1, icv, icv+1, 16, 16+icv, 32+icv))
	default:
		body = g.bytes(g.r.Intn(120))
	}
	var els []chainElem
	filler := func() chainElem {
		switch g.r.Intn(3) {
		case 0:
			return chainElem{typ: uint8(g.pick(40, 43)), body: g.bytes(1 + g.r.Intn(8))}
		default:
			return chainElem{typ: uint8(g.pick(1, 5, 32, 49, 50, 127, 200, 255)), resv: uint8(g.r.Intn(128)), body: g.bytes(g.r.Intn(12))}
		}
	}
	for n := g.pick(0, 1, 1, 1, 2, 3); n > 0; n-- {
		els = append(els, filler())
	}
	els = append(els, chainElem{typ: 46, body: body})
	for n := g.pick(0, 0, 0, 1, 2); n > 0; n-- {
		els = append(els, filler())
	}
	h := L(A("H"), N(g.u64()), N(g.u64()), N(2), N(0), N(uint64(g.pick(34, 35, 36, 37))), N(uint64(g.pick(0, 8, 32, 40))), N(uint64(g.r.Intn(4))))
	out := encodeHeaderRef(h, els[0].typ, encodeChainRef(els))
	if g.chance(0.5) { // the inner first-payload field of the SK payload: chainRef wrote the type of the following payload; also try others
		off := 28
		for _, e := range els {
			if e.typ == 46 {
				out[off] = byte(g.pick(0, 33, 41, 46, 48))
				break
			}
			off += 4 + len(e.body)
		}
	}
	return out
}

// replay of "unprotect ..." / "cbc-decrypt ..." lines
func (c *Ctx) replaySK(s *SuiteStat) {
	f := strings.Fields(c.replay.Input)
	if len(f) == 0 {
		return
	}
	switch f[0] {
	case "unprotect":
		k, rest := parseKeysLine(f[1:])
		role := message.Role(rest[0] == "I")
		withHdr := rest[1] == "1"
		in := unhx(rest[2])
		r := unprotect(newSA(k), in, role, withHdr)
		s.add(c.replay.Input, true, "outcome:"+r.kind)
		if r.kind == "panic" || (c.replay.Expected == "err" && r.kind != "err") {
			c.violate(Violation{Suite: "replay", Kind: "property", Class: c.replay.Class, Desc: c.replay.Desc, Input: c.replay.Input, Expected: c.replay.Expected, Actual: clip(r.String())})
		}
	case "cbc-decrypt":
		ke, ct := unhx(f[1]), unhx(f[2])
		st := suite{e: len(ke)/8 - 2}
		obj, err := newSA((&Gen{r: NewGen(1).r}).saKeys(st)).EncrInfo.NewCrypto(ke)
		if err != nil {
			return
		}
		in := exact(ct)
		r := guard(func() (string, error) {
			p, err := obj.Decrypt(in)
			if err != nil {
				return "", err
			}
			return hx(p), nil
		})
		s.add(c.replay.Input, true, "outcome:"+r.kind)
		if r.kind == "panic" {
			c.violate(Violation{Suite: "replay", Kind: "property", Class: c.replay.Class, Desc: c.replay.Desc, Input: c.replay.Input, Expected: c.replay.Expected, Actual: clip(r.String())})
		}
	}
}

func parseKeysLine(f []string) (*saKeys, []string) {
	var e, i, p int
	fmt.Sscan(f[0], &e)
	fmt.Sscan(f[1], &i)
	fmt.Sscan(f[2], &p)
	k := &saKeys{st: suite{e, i, p}, d: unhx(f[3]), ai: unhx(f[4]), ar: unhx(f[5]), ei: unhx(f[6]), er: unhx(f[7]), pi: unhx(f[8]), pr: unhx(f[9])}
	return k, f[10:]
}

// a copy of the message in which the first octet string of at least one octet inside the payload list has its
// first octet changed (same sizes everywhere); nil when the payloads carry no octet string
func sameSizeVariant(sx *Sx) *Sx {
	done := false
	var cp func(s *Sx, inPayloads bool) *Sx
	cp = func(s *Sx, inPayloads bool) *Sx {
		if !s.IsL {
			if inPayloads && !done && len(s.Atom) >= 3 && s.Atom[0] == 'x' {
				if b, err := hex.DecodeString(s.Atom[1:]); err == nil && len(b) > 0 {
					b[0] ^= 0x5a
					done = true
					return X(b)
				}
			}
			return &Sx{Atom: s.Atom}
		}
		out := &Sx{IsL: true}
		for _, c := range s.List {
			out.List = append(out.List, cp(c, inPayloads))
		}
		return out
	}
	if !sx.IsL || len(sx.List) != 3 {
		return nil
	}
	v := L(cp(sx.List[0], false), cp(sx.List[1], false), cp(sx.List[2], true))
	if !done {
		return nil
	}
	return v
}
