package main

// Decoding / encoding entry points of the implementation, by the names used in
// the line protocol with the Lean driver.

import (
	"encoding/hex"
	"fmt"

	"github.com/free5gc/ike/eap"
	"github.com/free5gc/ike/message"
)

type decoder struct {
	name string // protocol name: "dec <name> <hex>"
	f    func(b []byte) (string, error)
}

func newPayload(kind string) message.IKEPayload {
	switch kind {
	case "SA":
		return new(message.SecurityAssociation)
	case "KE":
		return new(message.KeyExchange)
	case "IDi":
		return new(message.IdentificationInitiator)
	case "IDr":
		return new(message.IdentificationResponder)
	case "CERT":
		return new(message.Certificate)
	case "CERTREQ":
		return new(message.CertificateRequest)
	case "AUTH":
		return new(message.Authentication)
	case "NONCE":
		return new(message.Nonce)
	case "N":
		return new(message.Notification)
	case "D":
		return new(message.Delete)
	case "V":
		return new(message.VendorID)
	case "TSi":
		return new(message.TrafficSelectorInitiator)
	case "TSr":
		return new(message.TrafficSelectorResponder)
	case "SK":
		return new(message.Encrypted)
	case "CP":
		return new(message.Configuration)
	case "EAP":
		return message.NewPayloadEap()
	}
	panic("newPayload " + kind)
}

func newEapMethod(kind string) eap.EapTypeData {
	switch kind {
	case "ID":
		return new(eap.EapIdentity)
	case "NOTIF":
		return new(eap.EapNotification)
	case "NAK":
		return new(eap.EapNak)
	case "EXP":
		return new(eap.EapExpanded)
	case "AKA":
		return new(eap.EapAkaPrime)
	}
	panic("newEapMethod " + kind)
}

var allPayloadKinds = []string{"SA", "KE", "IDi", "IDr", "CERT", "CERTREQ", "AUTH", "NONCE", "N", "D", "V", "TSi", "TSr", "SK", "CP", "EAP"}
var eapMethodKinds = []string{"ID", "NOTIF", "NAK", "EXP", "AKA"}

func decoders() []decoder {
	ds := []decoder{
		{"msg", func(b []byte) (string, error) {
			m := new(message.IKEMessage)
			if err := m.Decode(b); err != nil {
				return "", err
			}
			return renderMsg(m).String(), nil
		}},
		{"hdr", func(b []byte) (string, error) {
			h, err := message.ParseHeader(b)
			if err != nil {
				return "", err
			}
			return renderHeaderFull(h).String(), nil
		}},
	}
	for _, k := range allPayloadKinds {
		k := k
		ds = append(ds, decoder{"pl-" + k, func(b []byte) (string, error) {
			p := newPayload(k)
			if err := p.Unmarshal(b); err != nil {
				return "", err
			}
			return renderPayload(p).String(), nil
		}})
	}
	ds = append(ds, decoder{"eap", func(b []byte) (string, error) {
		e := new(eap.EAP)
		if err := e.Unmarshal(b); err != nil {
			return "", err
		}
		return renderEAP(e).String(), nil
	}})
	for _, k := range eapMethodKinds {
		k := k
		ds = append(ds, decoder{"eapm-" + k, func(b []byte) (string, error) {
			d := newEapMethod(k)
			if err := d.Unmarshal(b); err != nil {
				return "", err
			}
			return renderEapTypeData(d).String(), nil
		}})
	}
	return ds
}

// chain decoder for a given first-payload type
func chainDecoder(t uint8) decoder {
	return decoder{fmt.Sprintf("chain-%d", t), func(b []byte) (string, error) {
		var c message.IKEPayloadContainer
		if err := c.Decode(t, b); err != nil {
			return "", err
		}
		return renderPayloads(c).String(), nil
	}}
}

func hx(b []byte) string { return "x" + hex.EncodeToString(b) }

func unhx(s string) []byte {
	if len(s) > 0 && s[0] == 'x' {
		s = s[1:]
	}
	b, err := hex.DecodeString(s)
	if err != nil {
		panic("unhx: " + err.Error())
	}
	return b
}

// argBuf: the caller's buffer for one argument position, REUSED IN PLACE from call to call (a caller that keeps one
// nonce / key / identity buffer and refills it): the library may not remember an argument by reference.  The slice
// has exact capacity, like exact().
var argSlots = map[string][]byte{}
var argCalls = map[string]int{}

func argBuf(slot string, x []byte) []byte {
	b, _ := argBufChecked(slot, x)
	return b
}

// argBufChecked: as argBuf; every second call per slot the slice keeps SPARE CAPACITY behind its length (a nonce or
// key assembled by append in a roomy buffer), filled with a pattern.  check() says what the callee changed in the
// argument's own octets or in the memory behind it: arguments are read-only.
func argBufChecked(slot string, x []byte) (buf []byte, check func() string) {
	if x == nil {
		return nil, func() string { return "" }
	}
	b := argSlots[slot]
	if cap(b) < len(x)+64 {
		b = make([]byte, len(x), len(x)+128)
		argSlots[slot] = b
	}
	argCalls[slot]++
	spare := 0
	if argCalls[slot]%2 == 0 {
		spare = 64
	}
	full := b[: len(x)+spare : len(x)+spare]
	copy(full, x)
	for i := len(x); i < len(full); i++ {
		full[i] = 0xC3
	}
	want := append([]byte{}, full...)
	buf = full[:len(x)]
	return buf, func() string {
		for i := range want {
			if full[i] != want[i] {
				if i < len(x) {
					return fmt.Sprintf("octet %d of the argument itself was changed (%02x -> %02x)", i, want[i], full[i])
				}
				return fmt.Sprintf("octet %d behind the argument's length (spare capacity of the caller's buffer) was written (%02x -> %02x)", i-len(x), want[i], full[i])
			}
		}
		return ""
	}
}

// roBuf: a copy of b in its own backing array — with exact capacity, or (spare) followed by 48 pattern octets of spare
// capacity, as a slice of a receive buffer is — and a check that NOTHING in that array was written: what the caller
// hands in to be decoded, verified or decrypted is read-only
func roBuf(b []byte, spare bool) (in []byte, changed func() string) {
	n := len(b)
	extra := 0
	if spare {
		extra = 48
	}
	arr := make([]byte, n+extra)
	copy(arr, b)
	for i := n; i < len(arr); i++ {
		arr[i] = 0xA7
	}
	snap := append([]byte{}, arr...)
	return arr[: n : n+extra], func() string {
		for i := range arr {
			if arr[i] != snap[i] {
				where := "inside the input"
				if i >= n {
					where = "in the spare capacity behind the input"
				}
				return fmt.Sprintf("octet %d %s was overwritten (%#02x -> %#02x)", i, where, snap[i], arr[i])
			}
		}
		return ""
	}
}

var roCtr int

// run a decoder on an exact-capacity copy; the input must come back untouched
func runDec(d decoder, b []byte) callRes {
	in, changed := roBuf(b, false)
	poolAdd(b)
	setCase("dec " + d.name + " " + hx(b))
	r := guard(func() (string, error) { return d.f(in) })
	if w := changed(); w != "" && r.kind != "panic" {
		return callRes{kind: "panic", val: "the decoder wrote into its input: " + w}
	}
	return r
}

// run a decoder on a slice whose spare capacity is filled with `fill`
func runDecSpare(d decoder, b []byte, fill byte) callRes {
	buf := make([]byte, len(b)+64)
	copy(buf, b)
	for i := len(b); i < len(buf); i++ {
		buf[i] = fill
	}
	in := buf[:len(b)]
	return guard(func() (string, error) { return d.f(in) })
}

// one message object that lives through the whole run (an application that keeps a message value and refills it):
// before each use its header fields and its payload list are assigned from the case at hand; whatever earlier Encode
// / Decode calls left in the object (NextPayload, PayloadBytes) stays.  Encode has to be a function of the fields
// and payloads only.
var reusedMsg *message.IKEMessage

func encodeReused(m *message.IKEMessage) callRes {
	if reusedMsg == nil {
		reusedMsg = &message.IKEMessage{IKEHeader: &message.IKEHeader{}}
	}
	h := reusedMsg.IKEHeader
	h.InitiatorSPI, h.ResponderSPI, h.MajorVersion, h.MinorVersion = m.InitiatorSPI, m.ResponderSPI, m.MajorVersion, m.MinorVersion
	h.ExchangeType, h.Flags, h.MessageID = m.ExchangeType, m.Flags, m.MessageID
	reusedMsg.Payloads = m.Payloads
	return encodeMsgRes(reusedMsg)
}

func encodeMsgRes(m *message.IKEMessage) callRes {
	return guard(func() (string, error) {
		b, err := m.Encode()
		if err != nil {
			return "", err
		}
		poolAdd(b)
		return hxOwn(b), nil
	})
}

// hxOwn renders a buffer the library RETURNED and then overwrites it: returned buffers are the caller's to reuse
// (whatever the library still needs it must not keep there)
func hxOwn(b []byte) string {
	s := hx(b)
	for i := range b {
		b[i] = 0xEE
	}
	return s
}
