package main

// C11: algorithm <-> transform mapping (registries of security/encr, integ, prf,
// dh, esn; NewIKESAKey / NewChildSAKeyByProposal / ToProposal).
//
// Line protocol with the Lean driver (DriverReg.lean):
//   dectr <kind> <ttype> <id> <present 0|1> <fmt> <atype> <aval> x<vval>
//        kind in encr|encrk|integ|integk|prf|dh|esn
//        -> ok <id> <keyLen> <outLen> | none      (dh: <id> <public value octets> 0; esn: <id> <needESN> 0)
//   totr <kind> <index>                -> ok (T type id present fmt atype aval xVAL) | err
//   selike <nonce octets> <P sexpr>    -> ok <dh> <encr> <keyLen> <integ> <prf> | err
//   selchild <P sexpr>                 -> ok <dh|-> <encr> <keyLen> <integ|-> <needESN> | err
//   toprop ike <d> <e> <i> <p> | toprop child <d|-> <e> <i|-> <n>   -> ok (P ...) | err

// C19: constructors and builders (message/build.go, header.go NewHeader,
// message.go NewMessage), 3GPP TS 24.502 layouts.
//
// Line protocol with the Lean driver (DriverReg.lean):
//   build <prior container sexpr> <op> <args...>  -> ok <container after> | err <container after>
//     payload-container ops (prior = payload list, input form):
//       notification <proto> <type> xSPI xDATA | certificate <enc> xD | encrypted <next> xD | ke <group> xD
//       idi <t> xD | idr <t> xD | auth <m> xD | configuration <t> | nonce xD | tsi | tsr | sa
//       delete <proto> <spisize> <n> (<spi>...) | eap <code> <id> | eapsuccess <id> | eapfailure <id>
//       eap5gstart <id> | eap5gnas <id> xNAS | qos <pdu> xQFIS <default 0|1> <dscp given 0|1> <dscp>
//       nasip x<4 octets>|empty | upip x<4 octets>|empty | tcpport <port> | reset
//       (address arguments: the harness passes the dotted quad string to Go and the 4 octets to the
//        model; net.ParseIP is trusted)
//     sub-container ops: transform <type> <id> <atype|-> <aval|-> xV   (prior = list of (T ...))
//       cpattr <type> xV (prior = list of (A t xV)) | tsel <ts> <proto> <sport> <eport> xS xE (list of (TS ...))
//       proposal <num> <proto> xSPI (list of (P ...))
//   newheader <ispi> <rspi> <exch> <resp> <init> <mid> [<next> xPAYLOADBYTES]
//        -> ok (H ispi rspi major minor exch flags mid next xPB) <IsResponse> <IsInitiator>
//   hdrflags <flags>          -> ok <IsResponse> <IsInitiator>
//   spec3gpp start <id> | nas <id> xNAS | qos <pdu> xQFIS <default> <dscp|-> | nasip x4 | upip x4 | tcpport <port>
//        -> ok x<payload body as laid out by TS 24.502> | err (not representable)
//   enc msg <msg sexpr>       (existing codec operation, reused for the encode-time limits)

import (
	"bytes"
	"fmt"
	"math/big"
	"strconv"
	"strings"
	"time"

	"github.com/free5gc/ike/eap"
	"github.com/free5gc/ike/message"
	"github.com/free5gc/ike/security"
	"github.com/free5gc/ike/security/dh"
	"github.com/free5gc/ike/security/encr"
	"github.com/free5gc/ike/security/esn"
	"github.com/free5gc/ike/security/integ"
	"github.com/free5gc/ike/security/prf"
)

func init() {
	props["C11"] = propC11
	props["C19"] = propC19
}

// ---------------------------------------------------------------------------
// the RFC table, written from the RFCs (3602, 2403, 2404, 4868, 7296 s3.3.2,
// 3526): nothing here is read from the library except the exported names.

type c11Alg struct {
	kind   string // encr encrk integ integk prf dh esn
	name   string
	index  int // position in the generated Facts table of the kind
	ttype  uint8
	id     uint16
	keyLen int // octets; dh: size of the public value; esn: 1 = extended sequence numbers
	outLen int // integ: ICV octets; prf: output octets
	bits   int // AES key-length attribute value; 0 = the transform has no attribute
}

var c11Table = []c11Alg{
	{"encr", encr.ENCR_AES_CBC_128, 0, 1, 12, 16, 0, 128},
	{"encr", encr.ENCR_AES_CBC_192, 1, 1, 12, 24, 0, 192},
	{"encr", encr.ENCR_AES_CBC_256, 2, 1, 12, 32, 0, 256},
	{"encrk", encr.ENCR_AES_CBC_128, 0, 1, 12, 16, 0, 128},
	{"encrk", encr.ENCR_AES_CBC_192, 1, 1, 12, 24, 0, 192},
	{"encrk", encr.ENCR_AES_CBC_256, 2, 1, 12, 32, 0, 256},
	{"integ", integ.AUTH_HMAC_MD5_96, 0, 3, 1, 16, 12, 0},
	{"integ", integ.AUTH_HMAC_SHA1_96, 1, 3, 2, 20, 12, 0},
	{"integ", integ.AUTH_HMAC_SHA2_256_128, 2, 3, 12, 32, 16, 0},
	{"integk", integ.AUTH_HMAC_MD5_96, 0, 3, 1, 16, 0, 0},
	{"integk", integ.AUTH_HMAC_SHA1_96, 1, 3, 2, 20, 0, 0},
	{"integk", integ.AUTH_HMAC_SHA2_256_128, 2, 3, 12, 32, 0, 0},
	{"prf", prf.PRF_HMAC_MD5, 0, 2, 1, 16, 16, 0},
	{"prf", prf.PRF_HMAC_SHA1, 1, 2, 2, 20, 20, 0},
	{"prf", prf.PRF_HMAC_SHA2_256, 2, 2, 5, 32, 32, 0},
	{"dh", dh.DH_1024_BIT_MODP, 0, 4, 2, 128, 0, 0},
	{"dh", dh.DH_2048_BIT_MODP, 1, 4, 14, 256, 0, 0},
	{"esn", esn.String_ESN_ENABLE, 0, 5, 1, 1, 0, 0},
	{"esn", esn.String_ESN_DISABLE, 1, 5, 0, 0, 0, 0},
}

type c11Kind struct {
	name  string
	ttype uint8
}

var c11Kinds = []c11Kind{{"encr", 1}, {"encrk", 1}, {"prf", 2}, {"integ", 3}, {"integk", 3}, {"dh", 4}, {"esn", 5}}

func c11Algs(kind string) []c11Alg {
	var out []c11Alg
	for _, a := range c11Table {
		if a.kind == kind {
			out = append(out, a)
		}
	}
	return out
}

// outcome of one decode function
type c11Res struct {
	ok   bool
	id   uint16
	k, o int
	obj  interface{} // the descriptor object (identity comparison with StrToType)
}

func (r c11Res) String() string {
	if !r.ok {
		return "none"
	}
	return fmt.Sprintf("ok %d %d %d", r.id, r.k, r.o)
}

func (r c11Res) same(x c11Res) bool {
	return r.ok == x.ok && (!r.ok || (r.id == x.id && r.k == x.k && r.o == x.o))
}

var c11Zero = big.NewInt(0)

// the library's decode function of the kind
func c11DecRaw(kind string, t *message.Transform) c11Res {
	switch kind {
	case "encr":
		if a := encr.DecodeTransform(t); a != nil {
			return c11Res{true, a.TransformID(), a.GetKeyLength(), 0, a}
		}
	case "encrk":
		if a := encr.DecodeTransformChildSA(t); a != nil {
			return c11Res{true, a.TransformID(), a.GetKeyLength(), 0, a}
		}
	case "integ":
		if a := integ.DecodeTransform(t); a != nil {
			return c11Res{true, a.TransformID(), a.GetKeyLength(), a.GetOutputLength(), a}
		}
	case "integk":
		if a := integ.DecodeTransformChildSA(t); a != nil {
			return c11Res{true, a.TransformID(), a.GetKeyLength(), 0, a}
		}
	case "prf":
		if a := prf.DecodeTransform(t); a != nil {
			return c11Res{true, a.TransformID(), a.GetKeyLength(), a.GetOutputLength(), a}
		}
	case "dh":
		if a := dh.DecodeTransform(t); a != nil {
			return c11Res{true, a.TransformID(), len(a.GetPublicValue(c11Zero)), 0, a}
		}
	case "esn":
		if a, err := esn.DecodeTransform(t); err == nil {
			k := 0
			if a.GetNeedESN() {
				k = 1
			}
			return c11Res{true, a.TransformID(), k, 0, a}
		}
	default:
		panic("c11DecRaw " + kind)
	}
	return c11Res{}
}

// StrToType / StrToKType of the kind
func c11ByName(kind, name string) c11Res {
	switch kind {
	case "encr":
		if a := encr.StrToType(name); a != nil {
			return c11Res{true, a.TransformID(), a.GetKeyLength(), 0, a}
		}
	case "encrk":
		if a := encr.StrToKType(name); a != nil {
			return c11Res{true, a.TransformID(), a.GetKeyLength(), 0, a}
		}
	case "integ":
		if a := integ.StrToType(name); a != nil {
			return c11Res{true, a.TransformID(), a.GetKeyLength(), a.GetOutputLength(), a}
		}
	case "integk":
		if a := integ.StrToKType(name); a != nil {
			return c11Res{true, a.TransformID(), a.GetKeyLength(), 0, a}
		}
	case "prf":
		if a := prf.StrToType(name); a != nil {
			return c11Res{true, a.TransformID(), a.GetKeyLength(), a.GetOutputLength(), a}
		}
	case "dh":
		if a := dh.StrToType(name); a != nil {
			return c11Res{true, a.TransformID(), len(a.GetPublicValue(c11Zero)), 0, a}
		}
	case "esn":
		if a, err := esn.StrToType(name); err == nil {
			k := 0
			if a.GetNeedESN() {
				k = 1
			}
			return c11Res{true, a.TransformID(), k, 0, a}
		}
	}
	return c11Res{}
}

// ToTransform / ToTransformChildSA of the kind on the object obtained by name
func c11ToTransform(kind string, obj interface{}) (*message.Transform, error) {
	switch kind {
	case "encr":
		return encr.ToTransform(obj.(encr.ENCRType))
	case "encrk":
		return encr.ToTransformChildSA(obj.(encr.ENCRKType))
	case "integ":
		return integ.ToTransform(obj.(integ.INTEGType)), nil
	case "integk":
		return integ.ToTransformChildSA(obj.(integ.INTEGKType)), nil
	case "prf":
		return prf.ToTransform(obj.(prf.PRFType)), nil
	case "dh":
		return dh.ToTransform(obj.(dh.DHType)), nil
	case "esn":
		return esn.ToTransform(obj.(esn.ESN)), nil
	}
	panic("c11ToTransform " + kind)
}

// the independent reference: what a received transform may be mapped to
func c11Ref(kind string, t *message.Transform) c11Res {
	for _, a := range c11Table {
		if a.kind != kind || a.id != t.TransformID {
			continue
		}
		if a.bits != 0 {
			if !(t.AttributePresent && t.AttributeFormat == 1 && t.AttributeType == 14 && int(t.AttributeValue) == a.bits) {
				continue
			}
		}
		return c11Res{ok: true, id: a.id, k: a.keyLen, o: a.outLen}
	}
	return c11Res{}
}

var c11TableByKind = func() [][]c11Alg {
	out := make([][]c11Alg, len(c11Kinds))
	for i, k := range c11Kinds {
		out[i] = c11Algs(k.name)
	}
	return out
}()

func c11RefK(ki int, t *message.Transform) c11Res {
	for i := range c11TableByKind[ki] {
		a := &c11TableByKind[ki][i]
		if a.id != t.TransformID {
			continue
		}
		if a.bits != 0 && !(t.AttributePresent && t.AttributeFormat == 1 && t.AttributeType == 14 && int(t.AttributeValue) == a.bits) {
			continue
		}
		return c11Res{ok: true, id: a.id, k: a.keyLen, o: a.outLen}
	}
	return c11Res{}
}

func c11Line(kind string, t *message.Transform) string {
	p := 0
	if t.AttributePresent {
		p = 1
	}
	return fmt.Sprintf("dectr %s %d %d %d %d %d %d %s", kind, t.TransformType, t.TransformID, p, t.AttributeFormat,
		t.AttributeType, t.AttributeValue, hx(t.VariableLengthAttributeValue))
}

func c11ParseLine(f []string) (string, *message.Transform) {
	u := func(s string) uint64 {
		v, err := strconv.ParseUint(s, 10, 64)
		if err != nil {
			panic(err)
		}
		return v
	}
	t := &message.Transform{TransformType: uint8(u(f[2])), TransformID: uint16(u(f[3])), AttributePresent: f[4] != "0",
		AttributeFormat: uint8(u(f[5])), AttributeType: uint16(u(f[6])), AttributeValue: uint16(u(f[7]))}
	if v := unhx(f[8]); len(v) > 0 {
		t.VariableLengthAttributeValue = v
	}
	return f[1], t
}

// transform -> SA payload -> bytes -> SA payload -> transform
func c11Wire(t *message.Transform, num, proto uint8, spi []byte) (*message.Transform, callRes) {
	var out *message.Transform
	r := guard(func() (string, error) {
		p := &message.Proposal{ProposalNumber: num, ProtocolID: proto, SPI: spi}
		c11Container(p, t.TransformType, t)
		sa := &message.SecurityAssociation{Proposals: message.ProposalContainer{p}}
		b, err := sa.Marshal()
		if err != nil {
			return "", err
		}
		sa2 := new(message.SecurityAssociation)
		if err := sa2.Unmarshal(exact(b)); err != nil {
			return "", err
		}
		if len(sa2.Proposals) != 1 {
			return "", fmt.Errorf("decoded %d proposals", len(sa2.Proposals))
		}
		tc := c11Container(sa2.Proposals[0], t.TransformType, nil)
		if len(tc) != 1 {
			return "", fmt.Errorf("decoded %d transforms of type %d", len(tc), t.TransformType)
		}
		out = tc[0]
		return hx(b), nil
	})
	return out, r
}

// the proposal's container of a transform type; appends t when non-nil
func c11Container(p *message.Proposal, ttype uint8, t *message.Transform) message.TransformContainer {
	var c *message.TransformContainer
	switch ttype {
	case 1:
		c = &p.EncryptionAlgorithm
	case 2:
		c = &p.PseudorandomFunction
	case 3:
		c = &p.IntegrityAlgorithm
	case 4:
		c = &p.DiffieHellmanGroup
	case 5:
		c = &p.ExtendedSequenceNumbers
	default:
		panic("c11Container")
	}
	if t != nil {
		*c = append(*c, t)
	}
	return *c
}

func c11SameTransform(a, b *message.Transform) bool {
	return a.TransformType == b.TransformType && a.TransformID == b.TransformID && a.AttributePresent == b.AttributePresent &&
		a.AttributeFormat == b.AttributeFormat && a.AttributeType == b.AttributeType && a.AttributeValue == b.AttributeValue &&
		bytes.Equal(a.VariableLengthAttributeValue, b.VariableLengthAttributeValue)
}

// ---------------------------------------------------------------------------

var c11ClassNames = []string{"absent", "keylen-tv", "type-14+128k", "foreign-type", "keylen-tlv", "replay"}
var c11PathNames = []string{"direct", "wire"}

func c11KindIndex(kind string) int {
	for i, k := range c11Kinds {
		if k.name == kind {
			return i
		}
	}
	panic("c11KindIndex " + kind)
}

// cases whose outcome is trivially "none" are counted here and merged into the suite statistics by flush()
type c11Stats struct {
	s       *SuiteStat
	count   [7][2][6]int // kind x path x class
	sampler int
}

func (st *c11Stats) flush() {
	for ki := range st.count {
		for pi := range st.count[ki] {
			for ci, n := range st.count[ki][pi] {
				if n == 0 {
					continue
				}
				st.s.Evaluations += n
				st.s.Dist["kind:"+c11Kinds[ki].name] += n
				st.s.Dist["path:"+c11PathNames[pi]] += n
				st.s.Dist["class:"+c11ClassNames[ci]] += n
				st.s.Dist["res:none"] += n
				st.count[ki][pi][ci] = 0
			}
		}
	}
}

// the decode call under recover (the sweep makes 10^7..10^8 calls: guard()'s closure and watchdog bookkeeping are avoided, panics are still caught)
func c11Guarded(kind string, t *message.Transform) (res c11Res, pan string) {
	defer func() {
		if p := recover(); p != nil {
			pan = fmt.Sprint(p)
		}
	}()
	return c11DecRaw(kind, t), ""
}

// one decode case: kind's decode function on transform t (path 0: direct, 1: after the wire)
// sent: the transform as it was put on the wire (== t on the direct path): the reference is computed from it
func (c *Ctx) c11Check(st *c11Stats, ki int, t, sent *message.Transform, pi, ci int, idx int) c11Res {
	kind := c11Kinds[ki].name
	got, pan := c11Guarded(kind, t)
	want := c11RefK(ki, sent)
	registered := false
	switch t.TransformID {
	case 0, 1, 2, 5, 12, 14:
		registered = true
	}
	if registered || got.ok || want.ok || pan != "" {
		res := "none"
		if got.ok {
			res = "ok"
		}
		st.s.add(c11PathNames[pi]+" "+c11Line(kind, sent), true, "kind:"+kind, "class:"+c11ClassNames[ci], "path:"+c11PathNames[pi], "res:"+res)
	} else {
		st.sampler++
		if st.sampler%9973 == 0 {
			st.s.add(c11PathNames[pi]+" "+c11Line(kind, sent), false, "kind:"+kind, "class:"+c11ClassNames[ci], "path:"+c11PathNames[pi], "res:none")
		} else {
			st.count[ki][pi][ci]++
		}
	}
	if pan != "" {
		c.violate(Violation{Suite: st.s.Name, Kind: "property", Index: idx, Class: "panic:decode-transform",
			Desc: kind + " decode function panicked: " + pan, Input: c11PathNames[pi] + " " + c11Line(kind, sent), Expected: want.String(), Actual: "panic"})
		return got
	}
	if !got.same(want) {
		class, desc := "unsound-mapping", "a transform is mapped to an algorithm it does not denote (different identifier or key size, or a missing/foreign/TLV key-length attribute accepted)"
		if want.ok && !got.ok {
			class, desc = "advertised-not-decoded", "a transform denoting an advertised algorithm is reported unsupported"
		}
		c.violate(Violation{Suite: st.s.Name, Kind: "property", Index: idx, Class: class, Desc: desc + " [" + c11PathNames[pi] + "]",
			Input: c11PathNames[pi] + " " + c11Line(kind, sent), Expected: want.String(), Actual: got.String()})
	}
	return got
}

type c11Attr struct {
	present bool
	format  uint8
	atype   uint16
	aval    uint16
	vval    []byte
	class   int  // index into c11ClassNames
	random  bool // aval redrawn per identifier
}

func c11Classes(full bool) []c11Attr {
	out := []c11Attr{{class: 0}}
	for _, v := range []uint16{0, 1, 64, 127, 128, 129, 191, 192, 193, 255, 256, 257, 512, 65535} {
		out = append(out, c11Attr{present: true, format: 1, atype: 14, aval: v, class: 1})
	}
	out = append(out, c11Attr{present: true, format: 1, atype: 14, class: 1, random: true})
	vals := []uint16{128, 192, 256}
	ks := []int{1, 2, 127, 255}
	if full {
		out = append(out, c11Attr{present: true, format: 1, atype: 14, class: 1, random: true})
		ks = nil
		for k := 1; k <= 255; k++ {
			ks = append(ks, k)
		}
	}
	for _, k := range ks {
		out = append(out, c11Attr{present: true, format: 1, atype: uint16(14 + 128*k), aval: vals[k%3], class: 2})
	}
	for i, ty := range []uint16{0, 13, 15} {
		out = append(out, c11Attr{present: true, format: 1, atype: ty, aval: vals[i%3], class: 3})
	}
	for _, v := range vals {
		out = append(out, c11Attr{present: true, format: 0, atype: 14, aval: 0, vval: []byte{byte(v >> 8), byte(v)}, class: 4})
	}
	return out
}

func (a c11Attr) transform(g *Gen, ttype uint8, id uint16) *message.Transform {
	t := &message.Transform{TransformType: ttype, TransformID: id, AttributePresent: a.present, AttributeFormat: a.format,
		AttributeType: a.atype, AttributeValue: a.aval, VariableLengthAttributeValue: a.vval}
	if a.random {
		t.AttributeValue = uint16(g.r.Intn(65536))
	}
	return t
}

func propC11(c *Ctx) {
	g := NewGen(c.seed)
	if c.replay != nil {
		if strings.HasPrefix(c.replay.Input, "c11-first-use") {
			c.c11FirstUse()
			return
		}
		c.c11Replay(g)
		return
	}
	var corr []corrCase
	t0 := time.Now()
	c.c11Advertised(g, &corr)
	t1 := time.Now()
	c.c11Sound(g, &corr)
	t2 := time.Now()
	c.c11SA(g, &corr)
	c.c11FirstUse()
	c.note("wall: advertised %.1fs, soundness %.1fs, sa %.1fs", t1.Sub(t0).Seconds(), t2.Sub(t1).Seconds(), time.Since(t2).Seconds())
	sc := c.suite("registry-model-vs-impl", "correspondence",
		"dectr: every (kind, transform) with a registered identifier or a key-length-like attribute from the soundness sweep plus hand-built structs with stale fields (attribute not present / TLV format but type 14 and a value set); totr: every advertised algorithm; selike/selchild: the single-choice proposals of the SA suite (supported and one-unsupported); toprop: all 54+54 supported combinations; non-trivial = the Go outcome is not none/err")
	c.correspond(sc, corr)
}

// (1) every advertised algorithm: name -> object -> transform -> wire -> transform -> object
func (c *Ctx) c11Advertised(g *Gen, corr *[]corrCase) {
	s := c.suite("advertised-roundtrip", "oracle",
		"for each of the 19 advertised (kind, name) pairs: StrToType/StrToKType(name) has the RFC identifier and key/output lengths (table written in the oracle from RFC 3602/2403/2404/4868/7296/3526); ToTransform gives exactly (type, id, key-length TV attribute 14 for AES, no attribute otherwise); the transform placed in a proposal (random number, protocol, SPI) of an SA payload, marshalled and unmarshalled, decodes to the pointer-identical object with the same lengths; after the caller has overwritten every field of the returned transform (or of the transforms of a returned proposal) a further conversion still yields the algorithm's transform; names outside the advertised set give nil; non-trivial = every case; distinct by (kind, name, proposal surroundings)")
	idx := 0
	for _, a := range c11Table {
		a := a
		line := fmt.Sprintf("totr %s %d", a.kind, a.index)
		setCase(line)
		fail := func(class, desc, exp, act string) {
			c.violate(Violation{Suite: s.Name, Kind: "property", Index: idx, Class: class, Desc: desc + " (" + a.name + ")", Input: line, Expected: exp, Actual: act})
		}
		var byName c11Res
		var tr *message.Transform
		r := guard(func() (string, error) {
			byName = c11ByName(a.kind, a.name)
			if !byName.ok {
				return "", fmt.Errorf("not registered")
			}
			var err error
			tr, err = c11ToTransform(a.kind, byName.obj)
			if err != nil {
				return "", err
			}
			return renderTransform(tr).String(), nil
		})
		*corr = append(*corr, corrCase{line: line, goRes: r.String(), nontr: r.kind == "ok", tags: []string{"op:totr", "kind:" + a.kind}})
		wantT := L(A("T"), N(uint64(a.ttype)), N(uint64(a.id)), A("0"), N(0), N(0), N(0), X(nil))
		if a.bits != 0 {
			wantT = L(A("T"), N(uint64(a.ttype)), N(uint64(a.id)), A("1"), N(1), N(14), N(uint64(a.bits)), X(nil))
		}
		wantAlg := c11Res{ok: true, id: a.id, k: a.keyLen, o: a.outLen}
		s.add(line, true, "kind:"+a.kind, "step:name+totransform")
		if r.kind != "ok" {
			fail("advertised-missing:"+r.kind, "an advertised algorithm name is not registered or cannot be converted to a transform", "ok "+wantT.String(), r.String())
			continue
		}
		if !byName.same(wantAlg) {
			fail("rfc-lengths", "identifier / key length / output length of an advertised algorithm differ from the defining RFC", wantAlg.String(), byName.String())
		}
		if r.val != wantT.String() {
			fail("totransform", "ToTransform does not yield the transform of the algorithm", wantT.String(), r.val)
			continue
		}
		// direct decode and wire round trips
		n := c.n(60, 3000)
		for i := 0; i < n; i++ {
			idx++
			var spi []byte
			num, proto := uint8(g.u8()), uint8(g.u8())
			if i > 0 && g.chance(0.6) {
				spi = g.bytes(g.pick(4, 8, 1, 16, 255, g.r.Intn(256)))
			}
			caseText := fmt.Sprintf("%s wire-in (P %d %d %s)", line, num, proto, hx(spi))
			s.add(caseText, true, "kind:"+a.kind, "step:wire")
			in := *tr
			t2, wr := c11Wire(&in, num, proto, spi)
			if wr.kind != "ok" {
				fail("wire:"+wr.kind, "the transform of an advertised algorithm does not survive SA Marshal/Unmarshal", "ok", wr.String())
				break
			}
			if !c11SameTransform(tr, t2) {
				fail("wire-changes-transform", "the transform of an advertised algorithm is changed by SA Marshal/Unmarshal", renderTransform(tr).String(), renderTransform(t2).String())
				break
			}
			bad := false
			for _, tt := range []*message.Transform{tr, t2} {
				var got c11Res
				dr := guard(func() (string, error) { got = c11DecRaw(a.kind, tt); return "", nil })
				if dr.kind != "ok" || !got.same(wantAlg) {
					fail("roundtrip-algorithm", "decoding the transform of an advertised algorithm does not give back that algorithm", wantAlg.String(), got.String()+" "+dr.kind)
					bad = true
					break
				}
				if got.obj != byName.obj {
					fail("roundtrip-identity", "decoding the transform of an advertised algorithm gives a different descriptor object than StrToType(name)", fmt.Sprintf("%p", byName.obj), fmt.Sprintf("%p", got.obj))
					bad = true
					break
				}
			}
			if bad {
				break
			}
		}
		// the returned transform is the caller's: rewriting it must not reach later conversions (of this or, for
		// AES, of the neighbouring key sizes)
		*tr = message.Transform{TransformType: 7, TransformID: 4242, AttributePresent: true, AttributeFormat: 1, AttributeType: 14, AttributeValue: 128, VariableLengthAttributeValue: []byte{9}}
		r2 := guard(func() (string, error) {
			t2, err := c11ToTransform(a.kind, byName.obj)
			if err != nil {
				return "", err
			}
			return renderTransform(t2).String(), nil
		})
		s.add(line+" after-caller-edit", true, "kind:"+a.kind, "step:totransform-again")
		if r2.String() != "ok "+wantT.String() {
			fail("totransform-shared-result", "ToTransform after the caller rewrote the transform returned by the previous call does not yield the transform of the algorithm", "ok "+wantT.String(), r2.String())
		}
	}
	// closure of the name space
	for _, k := range c11Kinds {
		for _, name := range []string{"", "ENCR_AES_CBC", "ENCR_AES_CBC_512", "ENCR_AES_CBC_64", "encr_aes_cbc_128", "AUTH_HMAC_SHA2_512_256", "AUTH_NONE",
			"PRF_HMAC_TIGER", "PRF_HMAC_SHA2_512", "DH_768_BIT_MODP", "DH_1536_BIT_MODP", "DH_3072_BIT_MODP", "ESN", "ESN_ENABLE ", "x" + string(g.bytes(5))} {
			idx++
			var r c11Res
			gr := guard(func() (string, error) { r = c11ByName(k.name, name); return "", nil })
			s.add(fmt.Sprintf("strtotype %s %q", k.name, name), true, "kind:"+k.name, "step:unknown-name")
			if gr.kind != "ok" || r.ok {
				c.violate(Violation{Suite: s.Name, Kind: "property", Index: idx, Class: "unadvertised-name", Desc: "a name outside the advertised set denotes an algorithm",
					Input: fmt.Sprintf("strtotype %s %q", k.name, name), Expected: "none", Actual: r.String() + " " + gr.kind})
			}
		}
	}
}

// (2) soundness over all identifiers x attribute classes
func (c *Ctx) c11Sound(g *Gen, corr *[]corrCase) {
	s := c.suite("decode-soundness", "oracle",
		"all 65536 transform identifiers x attribute classes {absent; for identifiers 11,12,13 additionally every one of the 65536 TV key-length values; TV type 14 with value in {0,1,64,127,128,129,191,192,193,255,256,257,512,65535} and random; TV type 14+128k (k=1..255: all collide with 14 under a 7-bit mask; quick tier: k in {1,2,127,255} outside ids 0..300), TV types 0,13,15 carrying 128/192/256; for identifier 12 every one of the 65536 values under each TV attribute type 0..15 other than 14 (thorough: 0..127); TLV type 14 with the 2-octet big-endian value 128/192/256} x the 7 decode functions (encr, encr-child, prf, integ, integ-child, dh, esn), on the struct directly (path:direct) and after SA Marshal/Unmarshal of that transform (path:wire; quick tier: ids 0..300 with all classes + 2000 random ids with the reduced classes; thorough: all ids, all classes).  Outcome must equal the reference: unsupported, or the algorithm with that identifier and, for encryption, key length*8 = the TV value of attribute type exactly 14.  non-trivial = identifier registered in some registry (0,1,2,5,12,14) or outcome not none; the remaining cases are counted, a 1/9973 sample of them is listed; distinct by (path, kind, transform)")
	st := &c11Stats{s: s}
	fullCl, redCl := c11Classes(true), c11Classes(false)
	wireIDs := map[int]bool{}
	if !c.thorough() {
		for i := 0; i < 2000; i++ {
			wireIDs[g.r.Intn(65536)] = true
		}
	}
	idx := 0
	wireChanged := 0
	kindsOf := map[uint8][]int{}
	for i, k := range c11Kinds {
		kindsOf[k.ttype] = append(kindsOf[k.ttype], i)
	}
	for id := 0; id < 65536; id++ {
		classes := redCl
		if c.thorough() || id <= 300 {
			classes = fullCl
		}
		wire := c.thorough() || id <= 300 || wireIDs[id]
		for ci, cl := range classes {
			for tt := uint8(1); tt <= 5; tt++ {
				t := cl.transform(g, tt, uint16(id))
				for _, ki := range kindsOf[tt] {
					idx++
					got := c.c11Check(st, ki, t, t, 0, cl.class, idx)
					if corr != nil && (got.ok || (id == 12 && tt == 1) || (id <= 20 && ci < 3) || idx%200003 == 0) {
						kind := c11Kinds[ki].name
						*corr = append(*corr, corrCase{line: c11Line(kind, t), goRes: got.String(), nontr: got.ok, tags: []string{"op:dectr", "kind:" + kind, "class:" + c11ClassNames[cl.class]}})
					}
				}
				if !wire {
					continue
				}
				in := *t
				t2, wr := c11Wire(&in, 1, 1, nil)
				if (wr.kind != "ok" || !c11SameTransform(t, t2)) && wireChanged < 3 {
					wireChanged++
					act := wr.String()
					if wr.kind == "ok" {
						act = renderTransform(t2).String()
					}
					c.violate(Violation{Suite: s.Name, Kind: "property", Index: idx, Class: "wire-changes-transform:" + wr.kind,
						Desc: "a transform of the encodable domain does not survive SA Marshal/Unmarshal unchanged", Input: "wire " + c11Line(c11Kinds[kindsOf[tt][0]].name, t),
						Expected: renderTransform(t).String(), Actual: clip(act)})
				}
				if t2 == nil {
					continue
				}
				for _, ki := range kindsOf[tt] {
					idx++
					c.c11Check(st, ki, t2, t, 1, cl.class, idx)
				}
			}
		}
		if len(c.rep.Violations) >= c.maxV {
			break
		}
	}
	// every one of the 65536 key-length values (TV, attribute type 14) for the registered encryption identifier
	// and its neighbours, through both encryption decode functions
	for _, id := range []uint16{11, 12, 13} {
		for v := 0; v < 65536; v++ {
			t := &message.Transform{TransformType: 1, TransformID: id, AttributePresent: true, AttributeFormat: 1, AttributeType: 14, AttributeValue: uint16(v)}
			for _, ki := range kindsOf[1] {
				idx++
				got := c.c11Check(st, ki, t, t, 0, 1, idx)
				if corr != nil && id == 12 && (got.ok || v%2048 == 128 || v%4099 == 0) {
					kind := c11Kinds[ki].name
					*corr = append(*corr, corrCase{line: c11Line(kind, t), goRes: got.String(), nontr: got.ok, tags: []string{"op:dectr", "kind:" + kind, "class:keylen-tv"}})
				}
			}
		}
	}
	// the registered encryption identifier with a TV attribute of ANOTHER type: every one of the 65536 values under
	// each of the attribute types 0..15 (thorough: 0..127) except 14: never a key length
	maxType := 15
	if c.thorough() {
		maxType = 127
	}
	for at := 0; at <= maxType; at++ {
		if at == 14 {
			continue
		}
		for v := 0; v < 65536; v++ {
			t := &message.Transform{TransformType: 1, TransformID: 12, AttributePresent: true, AttributeFormat: 1, AttributeType: uint16(at), AttributeValue: uint16(v)}
			for _, ki := range kindsOf[1] {
				idx++
				c.c11Check(st, ki, t, t, 0, 3, idx)
			}
		}
		if len(c.rep.Violations) >= c.maxV {
			break
		}
	}
	st.flush()
	// hand-built structs the decoders accept although the wire codec and BuildTransform never produce them: observation + correspondence only
	obs := 0
	for _, kind := range []string{"encr", "encrk"} {
		for _, v := range []uint16{128, 192, 256, 100} {
			for _, t := range []*message.Transform{
				{TransformType: 1, TransformID: 12, AttributePresent: false, AttributeFormat: 0, AttributeType: 14, AttributeValue: v},
				{TransformType: 1, TransformID: 12, AttributePresent: true, AttributeFormat: 0, AttributeType: 14, AttributeValue: v, VariableLengthAttributeValue: []byte{1}},
				{TransformType: 3, TransformID: 12, AttributePresent: true, AttributeFormat: 1, AttributeType: 14, AttributeValue: v},
			} {
				var got c11Res
				r := guard(func() (string, error) { got = c11DecRaw(kind, t); return "", nil })
				if r.kind == "ok" && got.ok {
					obs++
				}
				if r.kind == "ok" {
					*corr = append(*corr, corrCase{line: c11Line(kind, t), goRes: got.String(), nontr: got.ok, tags: []string{"op:dectr", "kind:" + kind, "class:stale-fields"}})
				}
			}
		}
	}
	c.note("observation (outside C11's domain of received transforms): the decode functions read only TransformID/AttributeType/AttributeValue; %d hand-built structs with AttributePresent=false, or TLV format, or a foreign TransformType, but AttributeType=14 and AttributeValue in {128,192,256} are mapped to AES-CBC.  Neither SecurityAssociation.Unmarshal nor BuildTransform produces such a struct.", obs)
}

// ---------------------------------------------------------------------------
// (3) SA construction from single-choice proposals

type c11Choice struct {
	t    *message.Transform
	alg  *c11Alg // nil: unsupported
	what string
	tag  string
}

func c11Supported(kind string) []c11Choice {
	var out []c11Choice
	for _, a := range c11Algs(kind) {
		a := a
		t := &message.Transform{TransformType: a.ttype, TransformID: a.id}
		if a.bits != 0 {
			t.AttributePresent, t.AttributeFormat, t.AttributeType, t.AttributeValue = true, 1, 14, uint16(a.bits)
		}
		out = append(out, c11Choice{t, &a, "supported", "supported"})
	}
	return out
}

// unsupported transforms of a type; ids: the identifiers to try as "unknown id"
func c11Unsupported(kind string, ttype uint8, ids []int) []c11Choice {
	known := map[uint16]bool{}
	for _, a := range c11Algs(kind) {
		known[a.id] = true
	}
	var out []c11Choice
	for _, id := range ids {
		if known[uint16(id)] {
			continue
		}
		t := &message.Transform{TransformType: ttype, TransformID: uint16(id)}
		if ttype == 1 { // with a perfectly good key length: only the identifier is unknown
			t.AttributePresent, t.AttributeFormat, t.AttributeType, t.AttributeValue = true, 1, 14, 128
		}
		out = append(out, c11Choice{t, nil, "unknown-id", "unknown-id"})
	}
	if ttype == 1 {
		out = append(out, c11Choice{&message.Transform{TransformType: 1, TransformID: 12}, nil, "aes-no-keylen", "aes-no-keylen"})
		for _, v := range []uint16{100, 0, 64, 127, 129, 191, 193, 255, 257, 512, 65535} {
			out = append(out, c11Choice{&message.Transform{TransformType: 1, TransformID: 12, AttributePresent: true, AttributeFormat: 1, AttributeType: 14, AttributeValue: v}, nil, "aes-keylen-" + strconv.Itoa(int(v)), "aes-bad-keylen"})
		}
		for _, ty := range []uint16{142, 270, 14 + 128*255, 0, 13, 15} {
			out = append(out, c11Choice{&message.Transform{TransformType: 1, TransformID: 12, AttributePresent: true, AttributeFormat: 1, AttributeType: ty, AttributeValue: 128}, nil, "aes-foreign-attr-" + strconv.Itoa(int(ty)), "aes-foreign-attr"})
		}
		for _, v := range []uint16{128, 192, 256} {
			out = append(out, c11Choice{&message.Transform{TransformType: 1, TransformID: 12, AttributePresent: true, AttributeFormat: 0, AttributeType: 14,
				VariableLengthAttributeValue: []byte{byte(v >> 8), byte(v)}}, nil, "aes-tlv-keylen", "aes-tlv-keylen"})
		}
	}
	return out
}

func c11CopyT(t *message.Transform) *message.Transform {
	x := *t
	x.VariableLengthAttributeValue = append([]byte(nil), t.VariableLengthAttributeValue...)
	return &x
}

func c11Proposal(proto uint8, e, p, i, d, n *c11Choice) *message.Proposal {
	pr := &message.Proposal{ProposalNumber: 1, ProtocolID: proto}
	for _, ch := range []*c11Choice{e, p, i, d, n} {
		if ch != nil {
			c11Container(pr, ch.t.TransformType, c11CopyT(ch.t))
		}
	}
	return pr
}

// peer public value: g^x mod p for a harness-chosen x, in the group's size
var c11Group2P, _ = new(big.Int).SetString("FFFFFFFFFFFFFFFFC90FDAA22168C234C4C6628B80DC1CD129024E088A67CC74020BBEA63B139B22514A08798E3404DDEF9519B3CD3A431B302B0A6DF25F14374FE1356D6D51C245E485B576625E7EC6F44C42E9A637ED6B0BFF5CB6F406B7EDEE386BFB5A899FA5AE9F24117C4B1FE649286651ECE65381FFFFFFFFFFFFFFFF", 16)

func c11PeerValue(g *Gen, octets int) []byte {
	// any value in [2, p-2] is a valid peer value for the purposes of this suite; for 2048 bits a random 256-octet string with the top octet cleared is below the prime
	if octets == 128 {
		x := new(big.Int).SetBytes(g.keyBytesRandom(32))
		v := new(big.Int).Exp(big.NewInt(2), x, c11Group2P).Bytes()
		return append(make([]byte, 128-len(v)), v...)
	}
	b := g.keyBytesRandom(octets)
	b[0] &= 0x7f
	b[octets-1] |= 2
	return b
}

type c11IkeOutcome struct {
	res callRes
	sa  *security.IKESAKey
	pub []byte
}

func c11NewIKE(g *Gen, p *message.Proposal, peer, nonce []byte) c11IkeOutcome {
	var out c11IkeOutcome
	rnd := g.keyBytesRandom(64)
	rnd[0] |= 1    // never below the minimum
	rnd[1] &= 0xfe // never all-ones
	withRand(rnd, -1, func() {
		out.res = guard(func() (string, error) {
			sa, pub, err := security.NewIKESAKey(p, peer, nonce, 0x0102030405060708, 0x1112131415161718)
			if err != nil {
				return "", err
			}
			if sa == nil {
				return "", fmt.Errorf("nil SA without error")
			}
			out.sa, out.pub = sa, pub
			ig := "-"
			if sa.IntegInfo != nil {
				ig = strconv.Itoa(int(sa.IntegInfo.TransformID()))
			}
			return fmt.Sprintf("%d %d %d %s %d", sa.DhInfo.TransformID(), sa.EncrInfo.TransformID(), sa.EncrInfo.GetKeyLength(), ig, sa.PrfInfo.TransformID()), nil
		})
	})
	return out
}

func c11NewChild(p *message.Proposal) (callRes, *security.ChildSAKey) {
	var sa *security.ChildSAKey
	r := guard(func() (string, error) {
		var err error
		sa, err = security.NewChildSAKeyByProposal(p)
		if err != nil {
			return "", err
		}
		if sa == nil {
			return "", fmt.Errorf("nil SA without error")
		}
		d, i := "-", "-"
		if sa.DhInfo != nil {
			d = strconv.Itoa(int(sa.DhInfo.TransformID()))
		}
		if sa.IntegKInfo != nil {
			i = strconv.Itoa(int(sa.IntegKInfo.TransformID()))
		}
		n := 0
		if sa.EsnInfo.GetNeedESN() {
			n = 1
		}
		return fmt.Sprintf("%s %d %d %s %d", d, sa.EncrKInfo.TransformID(), sa.EncrKInfo.GetKeyLength(), i, n), nil
	})
	return r, sa
}

func c11IDs(g *Gen, all bool, extra int) []int {
	var ids []int
	if all {
		for i := 0; i < 65536; i++ {
			ids = append(ids, i)
		}
		return ids
	}
	for i := 0; i <= 300; i++ {
		ids = append(ids, i)
	}
	ids = append(ids, 32767, 32768, 65534, 65535, 256+12, 12<<8)
	for i := 0; i < extra; i++ {
		ids = append(ids, g.r.Intn(65536))
	}
	return ids
}

func (c *Ctx) c11SA(g *Gen, corr *[]corrCase) {
	s := c.suite("sa-from-proposal", "oracle",
		"single-choice proposals (at most one transform per type).  Supported: all 3x3x3x2 IKE combinations through NewIKESAKey (deterministic crypto/rand, valid peer value of the group's size, random nonce) and all 3x3x2x{no dh, group 2, group 14} Child combinations through NewChildSAKeyByProposal: must succeed with the descriptors StrToType(name) denotes, keys of the RFC sizes, and ToProposal() must equal the proposal written from the RFC table and decode back (directly and after SA Marshal/Unmarshal) to the same objects.  One unsupported transform, the others supported (rotating): unknown identifier at each position (quick tier: ids 0..300 + boundary values + 3000 random, for the IKE integrity position, which costs two modular exponentiations per case, + 200 random; thorough tier: all 65536 ids at every position), AES without key length, key lengths 100,0,64,127,129,191,193,255,257,512,65535, key length under attribute types 142, 270, 32654, 0, 13, 15, TLV-encoded key length: must return an error (not panic, not an SA).  non-trivial = every case; distinct by proposal")
	sup := map[string][]c11Choice{}
	for _, k := range c11Kinds {
		sup[k.name] = c11Supported(k.name)
	}
	idx := 0
	nonce := func() []byte { return g.keyBytesRandom(32 + g.r.Intn(33)) }
	peers128 := [][]byte{c11PeerValue(g, 128), c11PeerValue(g, 128), c11PeerValue(g, 128)}
	peers256 := [][]byte{c11PeerValue(g, 256), c11PeerValue(g, 256), c11PeerValue(g, 256)}
	peerFor := func(d *c11Choice) []byte {
		if d != nil && d.alg != nil && d.alg.id == 2 {
			return peers128[g.r.Intn(3)]
		}
		return peers256[g.r.Intn(3)]
	}
	fail := func(class, desc, in, exp, act string) {
		c.violate(Violation{Suite: s.Name, Kind: "property", Index: idx, Class: class, Desc: desc, Input: in, Expected: exp, Actual: clip(act)})
	}
	tsx := func(a *c11Alg) *Sx {
		if a.bits != 0 {
			return L(A("T"), N(uint64(a.ttype)), N(uint64(a.id)), A("1"), N(1), N(14), N(uint64(a.bits)), X(nil))
		}
		return L(A("T"), N(uint64(a.ttype)), N(uint64(a.id)), A("0"), N(0), N(0), N(0), X(nil))
	}
	// ---- supported IKE combinations
	for ei := range sup["encr"] {
		for ii := range sup["integ"] {
			for pi := range sup["prf"] {
				for di := range sup["dh"] {
					idx++
					e, i, p, d := &sup["encr"][ei], &sup["integ"][ii], &sup["prf"][pi], &sup["dh"][di]
					prop := c11Proposal(1, e, p, i, d, nil)
					nn := nonce()
					line := fmt.Sprintf("selike %d %s", len(nn), renderProposal(prop).String())
					setCase(line)
					s.add(line, true, "sa:ike", "case:supported")
					o := c11NewIKE(g, prop, peerFor(d), nn)
					*corr = append(*corr, corrCase{line: line, goRes: o.res.String(), nontr: o.res.kind == "ok", tags: []string{"op:selike", "case:supported"}})
					want := fmt.Sprintf("ok %d %d %d %d %d", d.alg.id, e.alg.id, e.alg.keyLen, i.alg.id, p.alg.id)
					if o.res.String() != want {
						fail("supported-proposal-refused:"+o.res.kind, "NewIKESAKey does not build the SA of a fully supported single-choice proposal", line, want, o.res.String())
						continue
					}
					sa := o.sa
					if sa.EncrInfo != encr.StrToType(e.alg.name) || sa.IntegInfo != integ.StrToType(i.alg.name) || sa.PrfInfo != prf.StrToType(p.alg.name) || sa.DhInfo != dh.StrToType(d.alg.name) {
						fail("sa-descriptor-identity", "the SA's descriptors are not the objects StrToType(name) returns", line, "same objects", "different")
					}
					if len(sa.SK_ei) != e.alg.keyLen || len(sa.SK_er) != e.alg.keyLen || len(sa.SK_ai) != i.alg.keyLen || len(sa.SK_ar) != i.alg.keyLen ||
						len(sa.SK_d) != p.alg.keyLen || len(sa.SK_pi) != p.alg.keyLen || len(sa.SK_pr) != p.alg.keyLen || len(o.pub) != d.alg.keyLen {
						fail("sa-key-sizes", "key sizes of the SA differ from the RFC sizes of the negotiated algorithms", line,
							fmt.Sprintf("e=%d a=%d p=%d pub=%d", e.alg.keyLen, i.alg.keyLen, p.alg.keyLen, d.alg.keyLen),
							fmt.Sprintf("ei=%d er=%d ai=%d ar=%d d=%d pi=%d pr=%d pub=%d", len(sa.SK_ei), len(sa.SK_er), len(sa.SK_ai), len(sa.SK_ar), len(sa.SK_d), len(sa.SK_pi), len(sa.SK_pr), len(o.pub)))
					}
					// ToProposal
					var back *message.Proposal
					tr := guard(func() (string, error) {
						var err error
						back, err = sa.ToProposal()
						if err != nil {
							return "", err
						}
						return renderProposal(back).String(), nil
					})
					wantP := L(A("P"), N(0), N(1), X(nil), L(tsx(e.alg)), L(tsx(p.alg)), L(tsx(i.alg)), L(tsx(d.alg)), L())
					tpLine := fmt.Sprintf("toprop ike %d %d %d %d", d.alg.index, e.alg.index, i.alg.index, p.alg.index)
					s.add(tpLine, true, "sa:ike", "case:toproposal")
					*corr = append(*corr, corrCase{line: tpLine, goRes: tr.String(), nontr: true, tags: []string{"op:toprop"}})
					if tr.String() != "ok "+wantP.String() {
						fail("toproposal", "IKESAKey.ToProposal() is not the proposal of the SA's algorithms", tpLine, "ok "+wantP.String(), tr.String())
						continue
					}
					c.c11ProposalBack(s, back, tpLine, idx, map[string]interface{}{"encr": sa.EncrInfo, "integ": sa.IntegInfo, "prf": sa.PrfInfo, "dh": sa.DhInfo})
					// the returned proposal is the caller's: rewriting its transforms must not reach later conversions
					for _, tc := range []message.TransformContainer{back.EncryptionAlgorithm, back.PseudorandomFunction, back.IntegrityAlgorithm, back.DiffieHellmanGroup, back.ExtendedSequenceNumbers} {
						for _, t := range tc {
							*t = message.Transform{TransformType: 7, TransformID: 4242, AttributePresent: true, AttributeFormat: 1, AttributeType: 14, AttributeValue: 128}
						}
					}
					tr2 := guard(func() (string, error) {
						b2, err := sa.ToProposal()
						if err != nil {
							return "", err
						}
						return renderProposal(b2).String(), nil
					})
					if tr2.String() != "ok "+wantP.String() {
						fail("toproposal-shared-result", "IKESAKey.ToProposal() after the caller rewrote the transforms of the proposal returned by the previous call", tpLine, "ok "+wantP.String(), tr2.String())
					}
				}
			}
		}
	}
	// ---- supported Child combinations
	for ei := range sup["encrk"] {
		for ii := range sup["integk"] {
			for ni := range sup["esn"] {
				for di := -1; di < len(sup["dh"]); di++ {
					idx++
					e, i, n := &sup["encrk"][ei], &sup["integk"][ii], &sup["esn"][ni]
					var d *c11Choice
					dIdx, dID := "-", "-"
					if di >= 0 {
						d = &sup["dh"][di]
						dIdx, dID = strconv.Itoa(d.alg.index), strconv.Itoa(int(d.alg.id))
					}
					prop := c11Proposal(3, e, nil, i, d, n)
					line := "selchild " + renderProposal(prop).String()
					setCase(line)
					s.add(line, true, "sa:child", "case:supported")
					r, sa := c11NewChild(prop)
					*corr = append(*corr, corrCase{line: line, goRes: r.String(), nontr: r.kind == "ok", tags: []string{"op:selchild", "case:supported"}})
					want := fmt.Sprintf("ok %s %d %d %d %d", dID, e.alg.id, e.alg.keyLen, i.alg.id, n.alg.keyLen)
					if r.String() != want {
						fail("supported-proposal-refused:"+r.kind, "NewChildSAKeyByProposal does not build the SA of a fully supported single-choice proposal", line, want, r.String())
						continue
					}
					wantN, _ := esn.StrToType(n.alg.name)
					if sa.EncrKInfo != encr.StrToKType(e.alg.name) || sa.IntegKInfo != integ.StrToKType(i.alg.name) || sa.EsnInfo != wantN || (d != nil && sa.DhInfo != dh.StrToType(d.alg.name)) || (d == nil && sa.DhInfo != nil) {
						fail("sa-descriptor-identity", "the Child SA's descriptors are not the objects StrToKType(name) returns", line, "same objects", "different")
					}
					var back *message.Proposal
					tr := guard(func() (string, error) {
						var err error
						back, err = sa.ToProposal()
						if err != nil {
							return "", err
						}
						return renderProposal(back).String(), nil
					})
					dl := L()
					if d != nil {
						dl = L(tsx(d.alg))
					}
					wantP := L(A("P"), N(0), N(3), X(nil), L(tsx(e.alg)), L(), L(tsx(i.alg)), dl, L(tsx(n.alg)))
					tpLine := fmt.Sprintf("toprop child %s %d %d %d", dIdx, e.alg.index, i.alg.index, n.alg.index)
					s.add(tpLine, true, "sa:child", "case:toproposal")
					*corr = append(*corr, corrCase{line: tpLine, goRes: tr.String(), nontr: true, tags: []string{"op:toprop"}})
					if tr.String() != "ok "+wantP.String() {
						fail("toproposal", "ChildSAKey.ToProposal() is not the proposal of the SA's algorithms", tpLine, "ok "+wantP.String(), tr.String())
						continue
					}
					objs := map[string]interface{}{"encrk": sa.EncrKInfo, "integk": sa.IntegKInfo, "esn": sa.EsnInfo}
					if d != nil {
						objs["dh"] = sa.DhInfo
					}
					c.c11ProposalBack(s, back, tpLine, idx, objs)
					// the wire copy builds the same SA again
					if b2 := c11WireProposal(back); b2 != nil {
						r2, _ := c11NewChild(b2)
						if r2.String() != want {
							fail("toproposal-wire-sa", "the proposal returned by ToProposal(), after SA Marshal/Unmarshal, does not build the same Child SA", tpLine, want, r2.String())
						}
					}
				}
			}
		}
	}
	// ---- one unsupported transform
	rot := 0
	pick := func(kind string) *c11Choice {
		rot++
		l := sup[kind]
		return &l[rot%len(l)]
	}
	allIDs := c11IDs(g, c.thorough(), 3000)
	integIDs := c11IDs(g, c.thorough(), 200)
	integNoErr := 0
	integCases := 0
	for pos, kind := range []string{"encr", "prf", "integ", "dh"} {
		ids := allIDs
		if kind == "integ" {
			ids = integIDs
		}
		tt := []uint8{1, 2, 3, 4}[pos]
		for ci, bad := range c11Unsupported(kind, tt, ids) {
			bad := bad
			idx++
			e, p, i, d := pick("encr"), pick("prf"), pick("integ"), pick("dh")
			if kind == "integ" {
				d = &sup["dh"][0] // group 2: the cheaper exponentiation
			}
			switch kind {
			case "encr":
				e = &bad
			case "prf":
				p = &bad
			case "integ":
				i = &bad
			case "dh":
				d = &bad
			}
			prop := c11Proposal(1, e, p, i, d, nil)
			nn := nonce()
			line := fmt.Sprintf("selike %d %s", len(nn), renderProposal(prop).String())
			setCase(line)
			s.add(line, true, "sa:ike", "case:unsupported-"+kind, "bad:"+bad.tag)
			o := c11NewIKE(g, prop, peerFor(d), nn)
			if bad.what != "unknown-id" || ci%509 == 0 || bad.t.TransformID <= 20 {
				*corr = append(*corr, corrCase{line: line, goRes: o.res.String(), nontr: false, tags: []string{"op:selike", "case:unsupported-" + kind}})
			}
			if kind == "integ" {
				integCases++
				if o.res.kind == "ok" {
					integNoErr++
				}
			}
			if o.res.kind != "err" {
				fail("unsupported-accepted:"+o.res.kind, "NewIKESAKey on a proposal with an unsupported "+kind+" transform ("+bad.what+") does not return an error", line, "err", o.res.String())
			}
		}
	}
	c.note("NewIKESAKey tests EncrInfo==nil where IntegInfo is meant (security.go:167); claim 'the error still arrives from GenerateKeyForIKESA' checked on %d proposals with an unsupported integrity transform: %d returned no error", integCases, integNoErr)
	for pos, kind := range []string{"encrk", "integk", "dh", "esn"} {
		tt := []uint8{1, 3, 4, 5}[pos]
		for ci, bad := range c11Unsupported(kind, tt, allIDs) {
			bad := bad
			idx++
			e, i, n := pick("encrk"), pick("integk"), pick("esn")
			var d *c11Choice
			if rot%3 != 0 {
				d = pick("dh")
			}
			switch kind {
			case "encrk":
				e = &bad
			case "integk":
				i = &bad
			case "dh":
				d = &bad
			case "esn":
				n = &bad
			}
			prop := c11Proposal(3, e, nil, i, d, n)
			line := "selchild " + renderProposal(prop).String()
			s.add(line, true, "sa:child", "case:unsupported-"+kind, "bad:"+bad.tag)
			r, _ := c11NewChild(prop)
			if bad.what != "unknown-id" || ci%509 == 0 || bad.t.TransformID <= 20 {
				*corr = append(*corr, corrCase{line: line, goRes: r.String(), nontr: false, tags: []string{"op:selchild", "case:unsupported-" + kind}})
			}
			if r.kind != "err" {
				fail("unsupported-accepted:"+r.kind, "NewChildSAKeyByProposal on a proposal with an unsupported "+kind+" transform ("+bad.what+") does not return an error", line, "err", r.String())
			}
		}
	}
	// ---- missing mandatory transform types and nil proposal
	for _, drop := range []string{"encr", "prf", "integ", "dh"} {
		idx++
		e, p, i, d := pick("encr"), pick("prf"), pick("integ"), pick("dh")
		switch drop {
		case "encr":
			e = nil
		case "prf":
			p = nil
		case "integ":
			i = nil
		case "dh":
			d = nil
		}
		prop := c11Proposal(1, e, p, i, d, nil)
		line := fmt.Sprintf("selike 32 %s", renderProposal(prop).String())
		s.add(line, true, "sa:ike", "case:missing-"+drop)
		o := c11NewIKE(g, prop, c11PeerValue(g, 256), g.keyBytesRandom(32))
		*corr = append(*corr, corrCase{line: line, goRes: o.res.String(), tags: []string{"op:selike", "case:missing"}})
		if o.res.kind != "err" {
			fail("incomplete-accepted:"+o.res.kind, "NewIKESAKey on a proposal without a "+drop+" transform does not return an error", line, "err", o.res.String())
		}
	}
	for _, drop := range []string{"encrk", "integk", "esn"} {
		idx++
		e, i, n := pick("encrk"), pick("integk"), pick("esn")
		switch drop {
		case "encrk":
			e = nil
		case "integk":
			i = nil
		case "esn":
			n = nil
		}
		prop := c11Proposal(3, e, nil, i, nil, n)
		line := "selchild " + renderProposal(prop).String()
		s.add(line, true, "sa:child", "case:missing-"+drop)
		r, _ := c11NewChild(prop)
		*corr = append(*corr, corrCase{line: line, goRes: r.String(), tags: []string{"op:selchild", "case:missing"}})
		if r.kind != "err" {
			fail("incomplete-accepted:"+r.kind, "NewChildSAKeyByProposal on a proposal without a "+drop+" transform does not return an error", line, "err", r.String())
		}
	}
	idx++
	s.add("selike nil", true, "sa:ike", "case:nil")
	if o := c11NewIKE(g, nil, c11PeerValue(g, 256), g.keyBytesRandom(32)); o.res.kind != "err" {
		fail("nil-accepted", "NewIKESAKey(nil proposal) does not return an error", "selike nil", "err", o.res.String())
	}
	s.add("selchild nil", true, "sa:child", "case:nil")
	if r, _ := c11NewChild(nil); r.kind != "err" {
		fail("nil-accepted", "NewChildSAKeyByProposal(nil) does not return an error", "selchild nil", "err", r.String())
	}
}

func c11WireProposal(p *message.Proposal) *message.Proposal {
	var out *message.Proposal
	guard(func() (string, error) {
		sa := &message.SecurityAssociation{Proposals: message.ProposalContainer{p}}
		b, err := sa.Marshal()
		if err != nil {
			return "", err
		}
		sa2 := new(message.SecurityAssociation)
		if err := sa2.Unmarshal(exact(b)); err != nil || len(sa2.Proposals) != 1 {
			return "", fmt.Errorf("unmarshal")
		}
		out = sa2.Proposals[0]
		return "", nil
	})
	return out
}

// every transform of a ToProposal() result decodes (directly and from the wire copy) to the SA's own descriptor
func (c *Ctx) c11ProposalBack(s *SuiteStat, p *message.Proposal, line string, idx int, objs map[string]interface{}) {
	wire := c11WireProposal(p)
	if wire == nil || renderProposal(wire).String() != renderProposal(p).String() {
		c.violate(Violation{Suite: s.Name, Kind: "property", Index: idx, Class: "toproposal-wire", Desc: "the proposal returned by ToProposal() does not survive SA Marshal/Unmarshal",
			Input: line, Expected: renderProposal(p).String(), Actual: renderProposal(wire).String()})
		return
	}
	for _, pr := range []*message.Proposal{p, wire} {
		for kind, obj := range objs {
			var tt uint8
			for _, k := range c11Kinds {
				if k.name == kind {
					tt = k.ttype
				}
			}
			tc := c11Container(pr, tt, nil)
			if len(tc) != 1 {
				c.violate(Violation{Suite: s.Name, Kind: "property", Index: idx, Class: "toproposal", Desc: "ToProposal() does not hold exactly one " + kind + " transform",
					Input: line, Expected: "1", Actual: strconv.Itoa(len(tc))})
				continue
			}
			var got c11Res
			r := guard(func() (string, error) { got = c11DecRaw(kind, tc[0]); return "", nil })
			if r.kind != "ok" || !got.ok || got.obj != obj {
				c.violate(Violation{Suite: s.Name, Kind: "property", Index: idx, Class: "toproposal-roundtrip", Desc: "a transform of ToProposal() does not decode back to the SA's " + kind + " algorithm",
					Input: line, Expected: fmt.Sprintf("%v", obj), Actual: got.String() + " " + r.kind})
			}
		}
	}
}

// ---------------------------------------------------------------------------

func (c *Ctx) c11Replay(g *Gen) {
	s := c.suite("replay", "oracle", "replay of one recorded case")
	st := &c11Stats{s: s}
	f := strings.Fields(c.replay.Input)
	switch {
	case len(f) >= 10 && (f[0] == "direct" || f[0] == "wire") && f[1] == "dectr":
		kind, t := c11ParseLine(f[1:])
		if f[0] == "wire" {
			in := *t
			t2, wr := c11Wire(&in, 1, 1, nil)
			if strings.HasPrefix(c.replay.Class, "wire-changes") || t2 == nil {
				s.add(c.replay.Input, true)
				if wr.kind != "ok" || !c11SameTransform(t, t2) {
					c.violate(Violation{Suite: s.Name, Kind: "property", Class: c.replay.Class, Desc: c.replay.Desc, Input: c.replay.Input, Expected: c.replay.Expected, Actual: wr.String()})
				}
				return
			}
			c.c11Check(st, c11KindIndex(kind), t2, t, 1, 5, 0)
			return
		}
		c.c11Check(st, c11KindIndex(kind), t, t, 0, 5, 0)
	case f[0] == "selike" && len(f) > 2 && f[1] != "nil":
		sx, err := ParseSx(strings.Join(f[2:], " "))
		if err != nil {
			panic(err)
		}
		n, _ := strconv.Atoi(f[1])
		p := buildProposal(sx)
		peer := 256
		if len(p.DiffieHellmanGroup) > 0 && p.DiffieHellmanGroup[0].TransformID == 2 {
			peer = 128
		}
		o := c11NewIKE(g, p, c11PeerValue(g, peer), g.keyBytesRandom(n))
		s.add(c.replay.Input, true)
		if (c.replay.Expected == "err") != (o.res.kind == "err") || o.res.kind == "panic" {
			c.violate(Violation{Suite: s.Name, Kind: "property", Class: c.replay.Class, Desc: c.replay.Desc, Input: c.replay.Input, Expected: c.replay.Expected, Actual: o.res.String()})
		}
	case f[0] == "selchild" && len(f) > 1 && f[1] != "nil":
		sx, err := ParseSx(strings.Join(f[1:], " "))
		if err != nil {
			panic(err)
		}
		r, _ := c11NewChild(buildProposal(sx))
		s.add(c.replay.Input, true)
		if (c.replay.Expected == "err") != (r.kind == "err") || r.kind == "panic" {
			c.violate(Violation{Suite: s.Name, Kind: "property", Class: c.replay.Class, Desc: c.replay.Desc, Input: c.replay.Input, Expected: c.replay.Expected, Actual: r.String()})
		}
	default:
		// totr / toprop / strtotype cases are exhaustive and cheap: run those suites again
		c.replay = nil
		var corr []corrCase
		c.c11Advertised(g, &corr)
		c.c11SA(g, &corr)
	}
}

// ===========================================================================
// C19

// ---------------------------------------------------------------------------
// TS 24.502 / RFC 3748 / RFC 7296 layouts, written from the specifications

// EAP-5G packet (EAP-Request, expanded type 254, vendor id 10415 in 3 octets, vendor type 3 in 4 octets)
func ts24502Eap5G(ident uint8, messageID uint8, rest []byte) []byte {
	body := append([]byte{messageID, 0 /* spare */}, rest...)
	total := 1 + 1 + 2 + 1 + 3 + 4 + len(body)
	out := []byte{1 /* Request */, ident, byte(total >> 8), byte(total), 254,
		byte(10415 >> 16), byte(10415 >> 8), byte(10415 & 0xff), 0, 0, 0, 3}
	return append(out, body...)
}

func ts24502Start(ident uint8) []byte { return ts24502Eap5G(ident, 1, nil) }

func ts24502NAS(ident uint8, nas []byte) []byte {
	return ts24502Eap5G(ident, 2, append([]byte{byte(len(nas) >> 8), byte(len(nas))}, nas...))
}

// Notify payload body: protocol id 0, SPI size 0, type, data
func ts24502Notify(ntype int, data []byte) []byte {
	return append([]byte{0, 0, byte(ntype >> 8), byte(ntype)}, data...)
}

func ts24502QosData(pdu uint8, qfis []byte, isDefault, dscpGiven bool, dscp uint8) []byte {
	total := 1 + 1 + 1 + len(qfis) + 1
	var flags byte
	if dscpGiven {
		flags |= 0x01 // DSCPI
		total++
	}
	if isDefault {
		flags |= 0x02 // DCSI
	}
	out := []byte{byte(total), pdu, byte(len(qfis))}
	out = append(out, qfis...)
	out = append(out, flags)
	if dscpGiven {
		out = append(out, dscp)
	}
	return out
}

// ---------------------------------------------------------------------------

type c19Case struct {
	prior *Sx
	op    string
	args  []string
}

func (cs *c19Case) line() string {
	l := "build " + cs.prior.String() + " " + cs.op
	if len(cs.args) > 0 {
		l += " " + strings.Join(cs.args, " ")
	}
	return l
}

func c19ParseLine(text string) *c19Case {
	text = strings.TrimPrefix(text, "build ")
	p := &sxParser{s: text}
	prior, err := p.parse()
	if err != nil {
		panic(err)
	}
	f := strings.Fields(text[p.i:])
	return &c19Case{prior: prior, op: f[0], args: f[1:]}
}

func c19U(s string) uint64 {
	v, err := strconv.ParseUint(s, 10, 64)
	if err != nil {
		panic("c19U " + s)
	}
	return v
}

func c19OptU16(s string) *uint16 {
	if s == "-" {
		return nil
	}
	v := uint16(c19U(s))
	return &v
}

func c19B(s string) []byte {
	b := unhx(s)
	if len(b) == 0 {
		return nil
	}
	return b
}

var c19PayloadOps = []string{"notification", "certificate", "encrypted", "ke", "idi", "idr", "auth", "configuration", "nonce", "tsi", "tsr", "sa",
	"delete", "eap", "eapsuccess", "eapfailure", "eap5gstart", "eap5gnas", "qos", "nasip", "upip", "tcpport", "reset"}
var c19SubOps = []string{"transform", "cpattr", "tsel", "proposal"}

func (g *Gen) c19Len() int {
	switch g.r.Intn(40) {
	case 0:
		return g.pick(65519, 65520, 65523, 65524, 65527, 65528, 65531, 65532, 65535, 65536, 70000)
	case 1:
		return g.r.Intn(70001)
	}
	return g.size(2000)
}

func (g *Gen) c19Octets() string { return hx(g.bytes(g.c19Len())) }

func (g *Gen) c19Spi() string {
	return hx(g.bytes(g.pick(0, 0, 4, 8, 8, 1, 16, 255, 256, 300, g.r.Intn(256))))
}

func u64s(v uint64) string { return strconv.FormatUint(v, 10) }

func (g *Gen) c19Args(op string) []string {
	switch op {
	case "notification":
		return []string{u64s(g.u8()), u64s(g.u16()), g.c19Spi(), g.c19Octets()}
	case "certificate", "idi", "idr", "auth", "encrypted":
		return []string{u64s(g.u8()), g.c19Octets()}
	case "ke":
		return []string{u64s(g.u16()), g.c19Octets()}
	case "configuration":
		return []string{u64s(g.u8())}
	case "nonce":
		return []string{g.c19Octets()}
	case "tsi", "tsr", "sa", "reset":
		return nil
	case "delete":
		n := g.pick(0, 1, 1, 2, 3, 17, g.r.Intn(40))
		sp := L()
		for i := 0; i < n; i++ {
			sp.List = append(sp.List, N(g.u32()))
		}
		num := uint64(n)
		if g.chance(0.2) {
			num = g.u16()
		}
		return []string{u64s(g.u8()), u64s(uint64(g.pick(4, 4, 4, 0, 8, int(g.u8())))), u64s(num), sp.String()}
	case "eap":
		return []string{u64s(uint64(g.pick(1, 2, 3, 4, int(g.u8())))), u64s(g.u8())}
	case "eapsuccess", "eapfailure", "eap5gstart":
		return []string{u64s(g.u8())}
	case "eap5gnas":
		n := g.pick(0, 1, 2, 16, 100, 1000, 65515, 65516, 65519, 65520, 65535, 65536, 70000, 1+g.r.Intn(70000), 1+g.r.Intn(2000), 1+g.r.Intn(200))
		return []string{u64s(g.u8()), hx(g.bytes(n))}
	case "qos":
		n := g.pick(0, 1, 2, 3, 250, 251, 252, 253, 255, 256, 300, g.r.Intn(301), g.r.Intn(10))
		return []string{u64s(g.u8()), hx(g.bytes(n)), u64s(uint64(g.r.Intn(2))), u64s(uint64(g.r.Intn(2))), u64s(g.u8())}
	case "nasip", "upip":
		if g.chance(0.15) {
			return []string{"empty"}
		}
		return []string{hx([]byte{byte(g.u8()), byte(g.u8()), byte(g.u8()), byte(g.u8())})}
	case "tcpport":
		if g.chance(0.15) {
			return []string{"0"}
		}
		return []string{u64s(g.u16())}
	case "transform":
		at, av, v := "-", "-", "x"
		switch g.r.Intn(6) {
		case 0: // no attribute
		case 1: // TV
			at, av = u64s(g.u16()), u64s(g.u16())
		case 2: // TLV
			at, v = u64s(g.u16()), hx(g.bytes(1+g.c19Len()))
		case 3: // type but neither value: dropped
			at = u64s(g.u16())
		case 4: // TV wins over a variable-length value
			at, av, v = u64s(g.u16()), u64s(g.u16()), hx(g.bytes(1+g.r.Intn(20)))
		case 5: // values without a type: ignored
			av, v = u64s(g.u16()), hx(g.bytes(g.r.Intn(20)))
		}
		return []string{u64s(uint64(g.pick(1, 2, 3, 4, 5, int(g.u8())))), u64s(g.u16()), at, av, v}
	case "cpattr":
		return []string{u64s(g.u16()), g.c19Octets()}
	case "tsel":
		al := g.pick(4, 4, 16, 0, g.r.Intn(20))
		return []string{u64s(uint64(g.pick(7, 8, int(g.u8())))), u64s(g.u8()), u64s(g.u16()), u64s(g.u16()), hx(g.bytes(al)), hx(g.bytes(al))}
	case "proposal":
		return []string{u64s(g.u8()), u64s(g.u8()), g.c19Spi()}
	}
	panic("c19Args " + op)
}

func (g *Gen) c19Prior(op string) *Sx {
	switch op {
	case "transform":
		l := L()
		for i, n := 0, g.r.Intn(4); i < n; i++ {
			l.List = append(l.List, g.transform(1+g.r.Intn(5)))
		}
		return l
	case "cpattr":
		l := L()
		for i, n := 0, g.r.Intn(4); i < n; i++ {
			l.List = append(l.List, L(A("A"), N(g.u15()), X(g.bytes(g.size(300)))))
		}
		return l
	case "tsel":
		if g.chance(0.3) {
			return L()
		}
		l := g.tsList()
		if len(l.List) > 5 {
			l.List = l.List[:5]
		}
		return l
	case "proposal":
		l := L()
		for i, n := 0, g.r.Intn(3); i < n; i++ {
			l.List = append(l.List, g.proposal())
		}
		return l
	}
	if g.chance(0.1) {
		return L()
	}
	return g.payloadList()
}

// what one builder call is expected to do, written from the arguments
type c19Call struct {
	run     func(cont *message.IKEPayloadContainer) (interface{}, error) // returns the builder's return value (or nil)
	want    *Sx                                                          // appended payload in output form; nil: nothing is appended
	wantErr bool                                                         // the builder must return an error and leave the container alone
	reset   bool                                                         // the container must be empty afterwards
	mut     [][]byte                                                     // byte-slice arguments, scribbled on after the call
	spis    []uint32                                                     // BuildDeletePayload's slice argument
	layout  []byte                                                       // TS 24.502: expected Marshal() of the appended payload
	retLast bool                                                         // the return value must be the appended element
}

func c19Bool(s string) bool { return s != "0" }

func c19Prepare(cs *c19Case) *c19Call {
	a := cs.args
	k := &c19Call{}
	switch cs.op {
	case "notification":
		proto, nt, spi, d := uint8(c19U(a[0])), uint16(c19U(a[1])), c19B(a[2]), c19B(a[3])
		k.run = func(c *message.IKEPayloadContainer) (interface{}, error) {
			c.BuildNotification(proto, nt, spi, d)
			return nil, nil
		}
		k.want = L(A("N"), N(uint64(proto)), N(uint64(nt)), X(unhx(a[2])), X(unhx(a[3])))
		k.mut = [][]byte{spi, d}
	case "certificate":
		t, d := uint8(c19U(a[0])), c19B(a[1])
		k.run = func(c *message.IKEPayloadContainer) (interface{}, error) { c.BuildCertificate(t, d); return nil, nil }
		k.want = L(A("CERT"), N(uint64(t)), X(unhx(a[1])))
		k.mut = [][]byte{d}
	case "encrypted":
		t, d := uint8(c19U(a[0])), c19B(a[1])
		k.run = func(c *message.IKEPayloadContainer) (interface{}, error) {
			return c.BuildEncrypted(message.IkePayloadType(t), d), nil
		}
		k.want = L(A("SK"), N(uint64(t)), X(unhx(a[1])))
		k.mut = [][]byte{d}
		k.retLast = true
	case "ke":
		t, d := uint16(c19U(a[0])), c19B(a[1])
		k.run = func(c *message.IKEPayloadContainer) (interface{}, error) { c.BUildKeyExchange(t, d); return nil, nil }
		k.want = L(A("KE"), N(uint64(t)), X(unhx(a[1])))
		k.mut = [][]byte{d}
	case "idi":
		t, d := uint8(c19U(a[0])), c19B(a[1])
		k.run = func(c *message.IKEPayloadContainer) (interface{}, error) {
			c.BuildIdentificationInitiator(t, d)
			return nil, nil
		}
		k.want = L(A("IDi"), N(uint64(t)), X(unhx(a[1])))
		k.mut = [][]byte{d}
	case "idr":
		t, d := uint8(c19U(a[0])), c19B(a[1])
		k.run = func(c *message.IKEPayloadContainer) (interface{}, error) {
			c.BuildIdentificationResponder(t, d)
			return nil, nil
		}
		k.want = L(A("IDr"), N(uint64(t)), X(unhx(a[1])))
		k.mut = [][]byte{d}
	case "auth":
		t, d := uint8(c19U(a[0])), c19B(a[1])
		k.run = func(c *message.IKEPayloadContainer) (interface{}, error) {
			c.BuildAuthentication(t, d)
			return nil, nil
		}
		k.want = L(A("AUTH"), N(uint64(t)), X(unhx(a[1])))
		k.mut = [][]byte{d}
	case "configuration":
		t := uint8(c19U(a[0]))
		k.run = func(c *message.IKEPayloadContainer) (interface{}, error) { return c.BuildConfiguration(t), nil }
		k.want = L(A("CP"), N(uint64(t)), L())
		k.retLast = true
	case "nonce":
		d := c19B(a[0])
		k.run = func(c *message.IKEPayloadContainer) (interface{}, error) { c.BuildNonce(d); return nil, nil }
		k.want = L(A("NONCE"), X(unhx(a[0])))
		k.mut = [][]byte{d}
	case "tsi":
		k.run = func(c *message.IKEPayloadContainer) (interface{}, error) {
			return c.BuildTrafficSelectorInitiator(), nil
		}
		k.want = L(A("TSi"), L())
		k.retLast = true
	case "tsr":
		k.run = func(c *message.IKEPayloadContainer) (interface{}, error) {
			return c.BuildTrafficSelectorResponder(), nil
		}
		k.want = L(A("TSr"), L())
		k.retLast = true
	case "sa":
		k.run = func(c *message.IKEPayloadContainer) (interface{}, error) { return c.BuildSecurityAssociation(), nil }
		k.want = L(A("SA"), L())
		k.retLast = true
	case "delete":
		proto, sz, num := uint8(c19U(a[0])), uint8(c19U(a[1])), uint16(c19U(a[2]))
		sx, err := ParseSx(strings.Join(a[3:], " "))
		if err != nil {
			panic(err)
		}
		var spis []uint32
		for i := range sx.List {
			spis = append(spis, uint32(sx.U(i)))
		}
		k.run = func(c *message.IKEPayloadContainer) (interface{}, error) {
			c.BuildDeletePayload(proto, sz, num, spis)
			return nil, nil
		}
		k.want = L(A("D"), N(uint64(proto)), N(uint64(sz)), N(uint64(num)), sx)
		k.spis = spis
	case "eap":
		code, id := uint8(c19U(a[0])), uint8(c19U(a[1]))
		k.run = func(c *message.IKEPayloadContainer) (interface{}, error) {
			return c.BuildEAP(eap.EapCode(code), id), nil
		}
		k.want = L(A("EAP"), N(uint64(code)), N(uint64(id)), A("nil"))
		k.retLast = true
	case "eapsuccess":
		id := uint8(c19U(a[0]))
		k.run = func(c *message.IKEPayloadContainer) (interface{}, error) { c.BuildEAPSuccess(id); return nil, nil }
		k.want = L(A("EAP"), N(3), N(uint64(id)), A("nil"))
		k.layout = []byte{3, id, 0, 4}
	case "eapfailure":
		id := uint8(c19U(a[0]))
		k.run = func(c *message.IKEPayloadContainer) (interface{}, error) { c.BuildEAPfailure(id); return nil, nil }
		k.want = L(A("EAP"), N(4), N(uint64(id)), A("nil"))
		k.layout = []byte{4, id, 0, 4}
	case "eap5gstart":
		id := uint8(c19U(a[0]))
		k.run = func(c *message.IKEPayloadContainer) (interface{}, error) { c.BuildEAP5GStart(id); return nil, nil }
		k.want = L(A("EAP"), N(1), N(uint64(id)), L(A("EXP"), N(10415), N(3), X([]byte{1, 0})))
		k.layout = ts24502Start(id)
	case "eap5gnas":
		id, nas := uint8(c19U(a[0])), c19B(a[1])
		k.run = func(c *message.IKEPayloadContainer) (interface{}, error) { return nil, c.BuildEAP5GNAS(id, nas) }
		if len(nas) == 0 || len(nas) > 65535 {
			k.wantErr = true
		} else {
			vd := append([]byte{2, 0, byte(len(nas) >> 8), byte(len(nas))}, nas...)
			k.want = L(A("EAP"), N(1), N(uint64(id)), L(A("EXP"), N(10415), N(3), X(vd)))
			k.layout = ts24502NAS(id, unhx(a[1]))
		}
		k.mut = [][]byte{nas}
	case "qos":
		pdu, qfis, isDef, dscpGiven, dscp := uint8(c19U(a[0])), c19B(a[1]), c19Bool(a[2]), c19Bool(a[3]), uint8(c19U(a[4]))
		k.run = func(c *message.IKEPayloadContainer) (interface{}, error) {
			return nil, c.BuildNotify5G_QOS_INFO(pdu, qfis, isDef, dscpGiven, dscp)
		}
		data := ts24502QosData(pdu, unhx(a[1]), isDef, dscpGiven, dscp)
		if len(qfis) > 255 || len(data) > 255 {
			k.wantErr = true
		} else {
			k.want = L(A("N"), N(0), N(55501), X(nil), X(data))
			k.layout = ts24502Notify(55501, data)
		}
		k.mut = [][]byte{qfis}
	case "nasip", "upip":
		nt := 55502
		if cs.op == "upip" {
			nt = 55504
		}
		str := ""
		if a[0] != "empty" {
			b := unhx(a[0])
			str = fmt.Sprintf("%d.%d.%d.%d", b[0], b[1], b[2], b[3])
			k.want = L(A("N"), N(0), N(uint64(nt)), X(nil), X(b))
			k.layout = ts24502Notify(nt, b)
		}
		if cs.op == "nasip" {
			k.run = func(c *message.IKEPayloadContainer) (interface{}, error) {
				c.BuildNotifyNAS_IP4_ADDRESS(str)
				return nil, nil
			}
		} else {
			k.run = func(c *message.IKEPayloadContainer) (interface{}, error) {
				c.BuildNotifyUP_IP4_ADDRESS(str)
				return nil, nil
			}
		}
	case "tcpport":
		port := uint16(c19U(a[0]))
		k.run = func(c *message.IKEPayloadContainer) (interface{}, error) {
			c.BuildNotifyNAS_TCP_PORT(port)
			return nil, nil
		}
		if port != 0 {
			d := []byte{byte(port >> 8), byte(port)}
			k.want = L(A("N"), N(0), N(55506), X(nil), X(d))
			k.layout = ts24502Notify(55506, d)
		}
	case "reset":
		k.run = func(c *message.IKEPayloadContainer) (interface{}, error) { c.Reset(); return nil, nil }
		k.reset = true
	default:
		panic("c19Prepare " + cs.op)
	}
	return k
}

func c19Scribble(bs [][]byte) {
	for _, b := range bs {
		for i := range b {
			b[i] ^= 0xa5
		}
	}
}

var c19DeleteNoted bool

// run one `build` case on the implementation; returns the canonical outcome
func (c *Ctx) c19Exec(s *SuiteStat, cs *c19Case, idx int) string {
	line := cs.line()
	setCase(clip(line))
	fail := func(class, desc, exp, act string) {
		c.violate(Violation{Suite: s.Name, Kind: "property", Index: idx, Class: class, Desc: desc + " (" + cs.op + ")", Input: line, Expected: clip(exp), Actual: clip(act)})
	}
	for _, so := range c19SubOps {
		if cs.op == so {
			return c.c19ExecSub(s, cs, idx, fail)
		}
	}
	k := c19Prepare(cs)
	cont := buildPayloads(cs.prior)
	before := renderPayloads(cont)
	ptrs := append([]message.IKEPayload(nil), cont...)
	n := len(cont)
	var ret interface{}
	r := guard(func() (string, error) {
		var err error
		ret, err = k.run(&cont)
		return "", err
	})
	if r.kind == "panic" {
		fail("panic:builder", "builder panicked: "+r.val, "no panic", "panic")
		return "panic"
	}
	after := renderPayloads(cont).String()
	want := L(before.List...)
	switch {
	case k.reset:
		want = L()
	case k.wantErr || k.want == nil:
	default:
		want.List = append(want.List, k.want)
	}
	if k.wantErr != (r.kind == "err") {
		exp := "ok"
		if k.wantErr {
			exp = "err"
		}
		fail("oversize-result", "builder's error result differs from the specified argument limits", exp, r.kind)
	}
	if after != want.String() {
		class, desc := "builder-payload", "container after the call is not the old container plus exactly the specified payload"
		if k.wantErr {
			class, desc = "container-changed-on-error", "builder returned an error but changed the container"
		}
		if len(cont) >= n && renderPayloads(cont[:n]).String() != before.String() {
			class, desc = "builder-touches-earlier", "builder changed an earlier payload"
		}
		fail(class, desc, want.String(), after)
		return r.kind + " " + after
	}
	if !k.reset {
		for i := 0; i < n; i++ {
			if cont[i] != ptrs[i] {
				fail("builder-touches-earlier", "an earlier payload was replaced by another object", fmt.Sprintf("element %d unchanged", i), "replaced")
				break
			}
		}
	}
	if k.retLast && (len(cont) != n+1 || fmt.Sprintf("%p", ret) != fmt.Sprintf("%p", cont[n])) {
		fail("builder-return", "the builder's return value is not the appended payload", "pointer to the last element", fmt.Sprintf("%p", ret))
	}
	// the builder copies its byte-slice arguments
	c19Scribble(k.mut)
	if a2 := renderPayloads(cont).String(); a2 != after {
		fail("builder-aliases-argument", "changing a byte-slice argument after the call changes the payload", after, a2)
	}
	c19Scribble(k.mut)
	if len(k.spis) > 0 {
		k.spis[0] ^= 0xffffffff
		if a2 := renderPayloads(cont).String(); a2 != after && !c19DeleteNoted {
			c19DeleteNoted = true
			c.note("BuildDeletePayload stores the caller's []uint32 (no copy): changing the slice after the call changes the payload; recorded as an observation, the source documents it by the plain assignment")
		}
		k.spis[0] ^= 0xffffffff
	}
	// TS 24.502 layout of the appended payload, and its place in an encoded chain
	if k.layout != nil && len(cont) == n+1 {
		last := cont[n]
		single := message.IKEPayloadContainer{last}
		er := guard(func() (string, error) {
			b, err := single.Encode()
			if err != nil {
				return "", err
			}
			return hx(b), nil
		})
		fits := 4+len(k.layout) <= 65535
		switch {
		case er.kind == "panic":
			fail("panic:encode", "Encode panicked on a freshly built payload: "+er.val, "ok or err", "panic")
		case fits:
			wantB := append([]byte{0, 0, byte((4 + len(k.layout)) >> 8), byte(4 + len(k.layout))}, k.layout...)
			if er.kind != "ok" || !bytes.Equal(unhx(er.val), wantB) {
				fail("3gpp-layout", "encoding of the built payload differs from the TS 24.502 / RFC layout", hx(wantB), er.String())
			}
		default:
			if er.kind != "err" {
				fail("oversize-truncated", "a payload that does not fit the 16-bit payload length was encoded without error", "err", er.String())
			}
		}
	}
	return r.kind + " " + after
}

func c19RenderAttrs(c message.ConfigurationAttributeContainer) *Sx {
	out := L()
	for _, a := range c {
		out.List = append(out.List, L(A("A"), N(uint64(a.Type)), X(a.Value)))
	}
	return out
}

func c19RenderProposals(c message.ProposalContainer) *Sx {
	out := L()
	for _, p := range c {
		out.List = append(out.List, renderProposal(p))
	}
	return out
}

func (c *Ctx) c19ExecSub(s *SuiteStat, cs *c19Case, idx int, fail func(class, desc, exp, act string)) string {
	a := cs.args
	var render func() *Sx
	var ptrs func() []interface{}
	var run func()
	var want *Sx
	var mut [][]byte
	var resetFn func()
	switch cs.op {
	case "transform":
		tc := buildTC(cs.prior)
		render = func() *Sx { return renderTC(tc) }
		ptrs = func() []interface{} {
			var o []interface{}
			for _, x := range tc {
				o = append(o, x)
			}
			return o
		}
		tt, id, atp, avp, v := uint8(c19U(a[0])), uint16(c19U(a[1])), c19OptU16(a[2]), c19OptU16(a[3]), c19B(a[4])
		run = func() {
			tc.BuildTransform(tt, id, atp, avp, v)
			if atp != nil {
				*atp ^= 0xffff
			}
			if avp != nil {
				*avp ^= 0xffff
			}
		}
		switch {
		case a[2] == "-":
			want = L(A("T"), N(uint64(tt)), N(uint64(id)), A("0"), N(0), N(0), N(0), X(nil))
		case a[3] != "-":
			want = L(A("T"), N(uint64(tt)), N(uint64(id)), A("1"), N(1), N(c19U(a[2])), N(c19U(a[3])), X(nil))
		case len(v) > 0:
			want = L(A("T"), N(uint64(tt)), N(uint64(id)), A("1"), N(0), N(c19U(a[2])), N(0), X(unhx(a[4])))
		}
		mut = [][]byte{v}
		resetFn = func() { tc.Reset() }
	case "cpattr":
		var ac message.ConfigurationAttributeContainer
		for _, x := range cs.prior.List {
			ac = append(ac, &message.IndividualConfigurationAttribute{Type: uint16(x.U(1)), Value: x.B(2)})
		}
		render = func() *Sx { return c19RenderAttrs(ac) }
		ptrs = func() []interface{} {
			var o []interface{}
			for _, x := range ac {
				o = append(o, x)
			}
			return o
		}
		t, v := uint16(c19U(a[0])), c19B(a[1])
		run = func() { ac.BuildConfigurationAttribute(t, v) }
		want = L(A("A"), N(uint64(t)), X(unhx(a[1])))
		mut = [][]byte{v}
		resetFn = func() { ac.Reset() }
	case "tsel":
		tsc := buildTS(cs.prior)
		render = func() *Sx { return renderTS(tsc) }
		ptrs = func() []interface{} {
			var o []interface{}
			for _, x := range tsc {
				o = append(o, x)
			}
			return o
		}
		ty, pr, sp, ep, sa, ea := uint8(c19U(a[0])), uint8(c19U(a[1])), uint16(c19U(a[2])), uint16(c19U(a[3])), c19B(a[4]), c19B(a[5])
		run = func() { tsc.BuildIndividualTrafficSelector(ty, pr, sp, ep, sa, ea) }
		want = L(A("TS"), N(uint64(ty)), N(uint64(pr)), N(uint64(sp)), N(uint64(ep)), X(unhx(a[4])), X(unhx(a[5])))
		mut = [][]byte{sa, ea}
		resetFn = func() { tsc.Reset() }
	case "proposal":
		var pc message.ProposalContainer
		for _, x := range cs.prior.List {
			pc = append(pc, buildProposal(x))
		}
		render = func() *Sx { return c19RenderProposals(pc) }
		ptrs = func() []interface{} {
			var o []interface{}
			for _, x := range pc {
				o = append(o, x)
			}
			return o
		}
		num, pr, spi := uint8(c19U(a[0])), uint8(c19U(a[1])), c19B(a[2])
		var ret *message.Proposal
		run = func() {
			ret = pc.BuildProposal(num, pr, spi)
			if len(pc) == 0 || ret != pc[len(pc)-1] {
				panic("BuildProposal: the return value is not the appended proposal")
			}
		}
		want = L(A("P"), N(uint64(num)), N(uint64(pr)), X(unhx(a[2])), L(), L(), L(), L(), L())
		mut = [][]byte{spi}
		resetFn = func() { pc.Reset() }
	}
	before := render()
	pb := ptrs()
	r := guard(func() (string, error) { run(); return "", nil })
	if r.kind != "ok" {
		fail("panic:builder", "builder panicked: "+r.val, "no panic", r.kind)
		return "panic"
	}
	after := render().String()
	wl := L(before.List...)
	if want != nil {
		wl.List = append(wl.List, want)
	}
	if after != wl.String() {
		fail("builder-element", "container after the call is not the old container plus exactly the specified element (a transform with an attribute type but no value is dropped)", wl.String(), after)
		return "ok " + after
	}
	pa := ptrs()
	for i := range pb {
		if pa[i] != pb[i] {
			fail("builder-touches-earlier", "an earlier element was replaced by another object", fmt.Sprintf("element %d unchanged", i), "replaced")
			break
		}
	}
	c19Scribble(mut)
	if a2 := render().String(); a2 != after {
		fail("builder-aliases-argument", "changing an argument after the call changes the element", after, a2)
	}
	c19Scribble(mut)
	out := "ok " + after
	// Reset() of this container type
	rr := guard(func() (string, error) { resetFn(); return "", nil })
	if rr.kind != "ok" || len(render().List) != 0 {
		fail("reset", "Reset() does not empty the container", "()", render().String())
	}
	return out
}

// ---------------------------------------------------------------------------

func propC19(c *Ctx) {
	g := NewGen(c.seed)
	if c.replay != nil {
		c.c19Replay(g)
		return
	}
	var corr []corrCase
	c.c19Header(g, &corr)
	c.c19Builders(g, &corr)
	c.c19Histories(g)
	c.c19Layouts(g, &corr)
	c.c19Oversize(g, &corr)
	sc := c.suite("build-model-vs-impl", "correspondence",
		"build: the builder cases of the suites below whose line is shorter than 40000 characters, plus every NAS/QFI boundary case (empty prior container); newheader/hdrflags: all header cases; spec3gpp: the TS 24.502 octet strings of the Lean Spec against the Go encoding of the built payload; enc msg: the encode-time limit cases; non-trivial = the operation appends something / returns ok")
	c.correspond(sc, corr)
}

func (c *Ctx) c19Header(g *Gen, corr *[]corrCase) {
	s := c.suite("newheader-newmessage", "oracle",
		"NewHeader with every combination of (response, initiator) x exchange types 0..255 x boundary and random SPIs / message ids / next payload / payload octets, and NewMessage with random payload containers: version 2.0, fields as given, Flags == (0x20 if response)|(0x08 if initiator), IsResponse/IsInitiator report the arguments; NewMessage: next payload 0, no payload octets, Payloads is the given container; IsResponse/IsInitiator on all 256 flag octets; non-trivial = every case; distinct by arguments")
	n := c.n(4000, 300000)
	for i := 0; i < n; i++ {
		ispi, rspi, mid := g.u64(), g.u64(), uint32(g.u32())
		exch := uint8(i / 4)
		if i >= 1024 {
			exch = uint8(g.pick(34, 35, 36, 37, int(g.u8())))
		}
		resp, init := i&1 != 0, i&2 != 0
		next := uint8(g.u8())
		var pb []byte
		if g.chance(0.5) {
			pb = g.bytes(g.size(200))
		}
		var flags uint64
		if resp {
			flags |= 0x20
		}
		if init {
			flags |= 0x08
		}
		b2 := func(b bool) string {
			if b {
				return "1"
			}
			return "0"
		}
		// NewHeader
		line := fmt.Sprintf("newheader %d %d %d %s %s %d %d %s", ispi, rspi, exch, b2(resp), b2(init), mid, next, hx(pb))
		setCase(line)
		s.add(line, true, "fn:NewHeader", "resp:"+b2(resp), "init:"+b2(init))
		want := "ok " + L(A("H"), N(ispi), N(rspi), N(2), N(0), N(uint64(exch)), N(flags), N(uint64(mid)), N(uint64(next)), X(pb)).String() + " " + b2(resp) + " " + b2(init)
		r := guard(func() (string, error) {
			h := message.NewHeader(ispi, rspi, exch, resp, init, mid, next, pb)
			return renderHeaderFull(h).String() + " " + b2(h.IsResponse()) + " " + b2(h.IsInitiator()), nil
		})
		if i < 60000 {
			*corr = append(*corr, corrCase{line: line, goRes: r.String(), nontr: true, tags: []string{"op:newheader"}})
		}
		if r.String() != want {
			c.violate(Violation{Suite: s.Name, Kind: "property", Index: i, Class: "newheader", Desc: "NewHeader does not yield the specified header", Input: line, Expected: want, Actual: r.String()})
		}
		// NewMessage
		if i%4 == 0 || i < 1024 {
			psx := g.payloadList()
			cont := buildPayloads(psx)
			line := fmt.Sprintf("newheader %d %d %d %s %s %d", ispi, rspi, exch, b2(resp), b2(init), mid)
			s.add(line+" "+psx.String(), true, "fn:NewMessage", "resp:"+b2(resp), "init:"+b2(init))
			want := "ok " + L(A("H"), N(ispi), N(rspi), N(2), N(0), N(uint64(exch)), N(flags), N(uint64(mid)), N(0), X(nil)).String() + " " + b2(resp) + " " + b2(init)
			var m *message.IKEMessage
			r := guard(func() (string, error) {
				m = message.NewMessage(ispi, rspi, exch, resp, init, mid, cont)
				return renderHeaderFull(m.IKEHeader).String() + " " + b2(m.IsResponse()) + " " + b2(m.IsInitiator()), nil
			})
			if i < 60000 {
				*corr = append(*corr, corrCase{line: line, goRes: r.String(), nontr: true, tags: []string{"op:newheader"}})
			}
			if r.String() != want {
				c.violate(Violation{Suite: s.Name, Kind: "property", Index: i, Class: "newmessage", Desc: "NewMessage does not yield the specified header", Input: line, Expected: want, Actual: r.String()})
			} else {
				same := len(m.Payloads) == len(cont)
				for j := 0; same && j < len(cont); j++ {
					same = m.Payloads[j] == cont[j]
				}
				if !same {
					c.violate(Violation{Suite: s.Name, Kind: "property", Index: i, Class: "newmessage-payloads", Desc: "NewMessage does not carry the given payload container", Input: line + " " + psx.String(),
						Expected: renderPayloads(cont).String(), Actual: renderPayloads(m.Payloads).String()})
				}
			}
		}
	}
	for f := 0; f < 256; f++ {
		line := fmt.Sprintf("hdrflags %d", f)
		s.add(line, true, "fn:IsResponse/IsInitiator")
		want := fmt.Sprintf("ok %d %d", (f>>5)&1, (f>>3)&1)
		r := guard(func() (string, error) {
			h := &message.IKEHeader{Flags: uint8(f), MajorVersion: 2}
			x, y := 0, 0
			if h.IsResponse() {
				x = 1
			}
			if h.IsInitiator() {
				y = 1
			}
			return fmt.Sprintf("%d %d", x, y), nil
		})
		*corr = append(*corr, corrCase{line: line, goRes: r.String(), nontr: true, tags: []string{"op:hdrflags"}})
		if r.String() != want {
			c.violate(Violation{Suite: s.Name, Kind: "property", Index: f, Class: "flag-accessors", Desc: "IsResponse/IsInitiator do not report bits 0x20/0x08", Input: line, Expected: want, Actual: r.String()})
		}
	}
}

func (c *Ctx) c19Builders(g *Gen, corr *[]corrCase) {
	s := c.suite("builders", "oracle",
		"every Build* function and Reset() of message/build.go on a container with random prior contents (payload lists of the codec generator; sub-containers: 0..3 random transforms / attributes / selectors / proposals): arguments random with octet strings of 0..70000 octets (biased to small sizes and to 65519..65536), SPIs of 0..300 octets, BuildTransform in its six argument shapes (no attribute; TV; TLV; type without value = dropped; TV given together with a variable-length value; values without a type), Delete with consistent and inconsistent counts.  After the call: rendering == rendering before ++ [payload written from the arguments]; earlier elements are the same objects; returned pointers are the appended element; scribbling on every byte-slice argument afterwards does not change the container; error <=> specified limit and then the container is unchanged.  non-trivial = something is appended; distinct by (prior, op, args)")
	per := c.n(120, 6000)
	idx := 0
	ops := append(append([]string{}, c19PayloadOps...), c19SubOps...)
	for _, op := range ops {
		if op == "eap5gnas" || op == "qos" {
			continue // the layouts suite
		}
		for i := 0; i < per; i++ {
			idx++
			cs := &c19Case{prior: g.c19Prior(op), op: op, args: g.c19Args(op)}
			if i == 0 {
				cs.prior = L()
			}
			cr := corr
			if i >= 1500 {
				cr = nil // the thorough tier sends the first 1500 cases per builder to the model
			}
			c.c19One(s, cs, idx, cr, 40000)
		}
	}
	// BuildEapExpanded
	for i := 0; i < c.n(200, 5000); i++ {
		idx++
		vid, vt, d := uint32(g.r.Intn(1<<24)), uint32(g.u32()), g.bytes(g.c19Len())
		text := fmt.Sprintf("eapexpanded %d %d %s", vid, vt, hx(d))
		s.add(text, true, "op:eapexpanded")
		want := L(A("EXP"), N(uint64(vid)), N(uint64(vt)), X(d)).String()
		var e *eap.EapExpanded
		r := guard(func() (string, error) {
			e = message.BuildEapExpanded(vid, vt, d)
			return renderEapTypeData(e).String(), nil
		})
		if r.String() != "ok "+want {
			c.violate(Violation{Suite: s.Name, Kind: "property", Index: idx, Class: "builder-payload", Desc: "BuildEapExpanded does not yield the specified value", Input: clip(text), Expected: clip(want), Actual: clip(r.String())})
			continue
		}
		c19Scribble([][]byte{d})
		if renderEapTypeData(e).String() != want {
			c.violate(Violation{Suite: s.Name, Kind: "property", Index: idx, Class: "builder-aliases-argument", Desc: "BuildEapExpanded keeps the caller's slice", Input: clip(text), Expected: clip(want), Actual: clip(renderEapTypeData(e).String())})
		}
	}
}

func (c *Ctx) c19One(s *SuiteStat, cs *c19Case, idx int, corr *[]corrCase, maxLine int) {
	res := c.c19Exec(s, cs, idx)
	line := cs.line()
	nontr := strings.HasPrefix(res, "ok") && cs.op != "reset"
	outcome := strings.SplitN(res, " ", 2)[0]
	s.add(line, nontr, "op:"+cs.op, "outcome:"+outcome)
	if corr != nil && len(line) < maxLine {
		*corr = append(*corr, corrCase{line: line, goRes: res, nontr: nontr, tags: []string{"op:build-" + cs.op}})
	}
}

// 3GPP helpers: sizes at every boundary, layouts byte for byte
func (c *Ctx) c19Layouts(g *Gen, corr *[]corrCase) {
	s := c.suite("3gpp-layouts", "oracle",
		"BuildEAP5GStart (all 256 identifiers), BuildEAP5GNAS (NAS PDU of 0, 1, 2, ..., 64, boundary sizes 65515/65516/65519/65520/65535/65536/70000 and random sizes up to 70000), BuildNotify5G_QOS_INFO (every QFI list length 0..300 x the 4 flag combinations), NAS/UP IPv4 address (random and boundary dotted quads, empty string), NAS TCP port (all 65536 ports), on random prior containers: the appended payload, encoded alone by IKEPayloadContainer.Encode, must equal generic header ++ the TS 24.502 layout written in the oracle (EAP Request/254/10415/3/message-id/spare/16-bit NAS length/NAS; length octet/PDU session id/QFI count/QFIs/flags DSCPI=0x01 DCSI=0x02/optional DSCP; 4 address octets; 2 port octets), or Encode must fail when the payload exceeds 65535 octets; NAS empty or > 65535, QFI list > 255 or value > 255 octets => error and container unchanged.  The same octet strings are requested from the Lean Spec (spec3gpp lines).  non-trivial = a payload is appended; distinct by (prior, op, args)")
	idx := 0
	toModel := true
	emit := func(op string, args []string, spec string, big bool) {
		idx++
		corr := corr
		if !toModel {
			corr = nil
		}
		cs := &c19Case{prior: g.c19Prior(op), op: op, args: args}
		max := 40000
		if big || idx%5 == 0 {
			cs.prior = L()
			max = 400000
		}
		c.c19One(s, cs, idx, corr, max)
		if spec != "" && corr != nil && len(spec) < 400000 {
			// the Go side of the spec line: the appended payload encoded alone, without the generic header
			cont := message.IKEPayloadContainer{}
			k := c19Prepare(cs)
			r := guard(func() (string, error) {
				if _, err := k.run(&cont); err != nil {
					return "", err
				}
				if len(cont) != 1 {
					return "", fmt.Errorf("nothing appended")
				}
				b, err := cont.Encode()
				if err != nil {
					return "", err
				}
				return hx(b[4:]), nil
			})
			*corr = append(*corr, corrCase{line: spec, goRes: r.String(), nontr: r.kind == "ok", tags: []string{"op:spec3gpp-" + op}})
		}
	}
	for id := 0; id < 256; id++ {
		emit("eap5gstart", []string{strconv.Itoa(id)}, fmt.Sprintf("spec3gpp start %d", id), false)
	}
	var nasSizes []int
	for n := 0; n <= 64; n++ {
		nasSizes = append(nasSizes, n)
	}
	nasSizes = append(nasSizes, 255, 256, 65514, 65515, 65516, 65519, 65520, 65534, 65535, 65536, 65537, 70000)
	for i := 0; i < c.n(60, 3000); i++ {
		nasSizes = append(nasSizes, 1+g.r.Intn(70000), 1+g.r.Intn(3000))
	}
	for i := 0; i < c.n(1500, 20000); i++ { // many short PDUs: the shapes of the byte generator (self-describing lengths, dictionary octets, earlier encodings) in volume
		nasSizes = append(nasSizes, 3+g.r.Intn(40))
	}
	for i, n := range nasSizes {
		id := g.u8()
		nas := hx(g.bytes(n))
		toModel = i < 200 // all boundary sizes and the first random ones; the rest is checked against the Go-written layout only
		emit("eap5gnas", []string{u64s(id), nas}, fmt.Sprintf("spec3gpp nas %d %s", id, nas), n > 15000)
	}
	toModel = true
	for n := 0; n <= 300; n++ {
		for fl := 0; fl < 4; fl++ {
			pdu, dscp := g.u8(), g.u8()
			qf := hx(g.bytes(n))
			ds := "-"
			if fl&2 != 0 {
				ds = u64s(dscp)
			}
			emit("qos", []string{u64s(pdu), qf, strconv.Itoa(fl & 1), strconv.Itoa(fl >> 1), u64s(dscp)},
				fmt.Sprintf("spec3gpp qos %d %s %d %s", pdu, qf, fl&1, ds), false)
		}
	}
	quads := [][]byte{{0, 0, 0, 0}, {255, 255, 255, 255}, {10, 0, 0, 1}, {127, 0, 0, 1}, {192, 168, 1, 254}, {1, 2, 3, 4}, {100, 200, 0, 255}}
	for i := 0; i < c.n(300, 20000); i++ {
		quads = append(quads, []byte{byte(g.u8()), byte(g.u8()), byte(g.u8()), byte(g.u8())})
	}
	for _, op := range []string{"nasip", "upip"} {
		emit(op, []string{"empty"}, "", false)
		for _, q := range quads {
			emit(op, []string{hx(q)}, fmt.Sprintf("spec3gpp %s %s", op, hx(q)), false)
		}
	}
	for port := 0; port < 65536; port++ {
		spec := ""
		if port != 0 && (port%97 == 0 || port < 300 || port > 65500) {
			spec = fmt.Sprintf("spec3gpp tcpport %d", port)
		}
		idx++
		cs := &c19Case{prior: L(), op: "tcpport", args: []string{strconv.Itoa(port)}}
		if port%64 == 0 {
			cs.prior = g.c19Prior("tcpport")
		}
		var cr *[]corrCase
		if spec != "" || port == 0 {
			cr = corr
		}
		c.c19One(s, cs, idx, cr, 40000)
		if spec != "" {
			*corr = append(*corr, corrCase{line: spec, goRes: "ok " + hx(ts24502Notify(55506, []byte{byte(port >> 8), byte(port)})), nontr: true, tags: []string{"op:spec3gpp-tcpport"}})
		}
	}
}

// limits enforced only when encoding
func (c *Ctx) c19Oversize(g *Gen, corr *[]corrCase) {
	s := c.suite("encode-time-limits", "oracle",
		"containers built with the builders whose arguments sit at and just beyond a limit that only Encode enforces: notify SPI 255/256/300/1000 octets, proposal SPI 255/256/300, 255/256/300 transforms in a proposal, 255/256/300 traffic selectors, payload bodies that make the payload 65535/65536/70000+ octets (nonce, KE, IDi, IDr, CERT, AUTH, notify data, SK), TLV transform value 65511/65512/65523/65524/65535/65536/70000, CP attribute value 65515/65516/65535/65536/70000, EAP-5G NAS 65515/65516/65519/65520/65535, expanded EAP vendor data 65519/65520/65524/70000, Delete with 16381/16382/65535/65536/70000 SPIs.  Expected (from the field widths of RFC 7296): within the limit => Encode succeeds and Decode returns the container; beyond => Encode returns an error; whatever Encode returns must decode to the container (no truncated field).  non-trivial = every case; distinct by case")
	idx := 0
	hdr := L(A("H"), N(1), N(2), N(2), N(0), N(37), N(8), N(0))
	check := func(what string, size int, fits bool, cont message.IKEPayloadContainer) {
		idx++
		text := fmt.Sprintf("oversize %s %d", what, size)
		setCase(text)
		lim := "within"
		if !fits {
			lim = "beyond"
		}
		s.add(text, true, "what:"+what, "limit:"+lim)
		rendered := renderPayloads(cont)
		var first uint8
		if len(cont) > 0 {
			first = uint8(cont[0].Type())
		}
		er := guard(func() (string, error) {
			b, err := cont.Encode()
			if err != nil {
				return "", err
			}
			return hx(b), nil
		})
		input := "enc msg " + L(A("msg"), hdr, rendered).String()
		if corr != nil && len(input) < 400000 {
			m := &message.IKEMessage{IKEHeader: buildHeader(hdr), Payloads: cont}
			*corr = append(*corr, corrCase{line: input, goRes: encodeMsgRes(m).String(), nontr: true, tags: []string{"op:enc-limit"}})
		}
		fail := func(class, desc, exp, act string) {
			c.violate(Violation{Suite: s.Name, Kind: "property", Index: idx, Class: class, Desc: desc + " [" + text + "]", Input: input, Expected: clip(exp), Actual: clip(act)})
		}
		switch er.kind {
		case "panic":
			fail("panic:encode", "Encode panicked on a built container: "+er.val, "ok or err", "panic")
		case "err":
			if fits {
				fail("limit-too-strict", "Encode refuses a container whose fields all fit their length fields", "ok", "err")
			}
		case "ok":
			var back message.IKEPayloadContainer
			dr := guard(func() (string, error) {
				if err := back.Decode(first, exact(unhx(er.val))); err != nil {
					return "", err
				}
				return renderPayloads(back).String(), nil
			})
			if dr.String() != "ok "+rendered.String() {
				fail("oversize-truncated", "Encode returned octets that do not decode to the container (a field was truncated or wrapped)", "ok "+rendered.String(), dr.String())
			} else if !fits {
				fail("limit-miscomputed", "harness expectation wrong: a container expected not to fit was encoded and decoded faithfully", "err", "ok")
			}
		}
	}
	tr := func(tc *message.TransformContainer, n int) {
		for i := 0; i < n; i++ {
			tc.BuildTransform(3, uint16(i), nil, nil, nil)
		}
	}
	for _, l := range []int{0, 255, 256, 300, 1000} {
		var c0 message.IKEPayloadContainer
		c0.BuildNonce(g.bytes(16))
		c0.BuildNotification(1, 16393, g.bytes(l), g.bytes(5))
		check("notify-spi", l, l <= 255, c0)
	}
	for _, l := range []int{255, 256, 300} {
		var c0 message.IKEPayloadContainer
		sa := c0.BuildSecurityAssociation()
		p := sa.Proposals.BuildProposal(1, 3, g.bytes(l))
		tr(&p.IntegrityAlgorithm, 2)
		check("proposal-spi", l, l <= 255, c0)
	}
	for _, n := range []int{255, 256, 300} {
		var c0 message.IKEPayloadContainer
		sa := c0.BuildSecurityAssociation()
		p := sa.Proposals.BuildProposal(1, 1, nil)
		tr(&p.IntegrityAlgorithm, n/2)
		at, av := uint16(14), uint16(128)
		for i := n / 2; i < n; i++ {
			p.EncryptionAlgorithm.BuildTransform(1, 12, &at, &av, nil)
		}
		check("transform-count", n, n <= 255, c0)
	}
	for _, n := range []int{255, 256, 300} {
		for _, resp := range []bool{false, true} {
			var c0 message.IKEPayloadContainer
			var tsc *message.IndividualTrafficSelectorContainer
			if resp {
				tsc = &c0.BuildTrafficSelectorResponder().TrafficSelectors
			} else {
				tsc = &c0.BuildTrafficSelectorInitiator().TrafficSelectors
			}
			for i := 0; i < n; i++ {
				tsc.BuildIndividualTrafficSelector(7, uint8(i), 0, 65535, g.bytes(4), g.bytes(4))
			}
			check("selector-count", n, n <= 255, c0)
		}
	}
	type bodyCase struct {
		what  string
		fixed int // octets of the payload besides the generic header and the variable part
		build func(c0 *message.IKEPayloadContainer, d []byte)
	}
	for _, bc := range []bodyCase{
		{"nonce", 0, func(c0 *message.IKEPayloadContainer, d []byte) { c0.BuildNonce(d) }},
		{"ke", 4, func(c0 *message.IKEPayloadContainer, d []byte) { c0.BUildKeyExchange(14, d) }},
		{"idi", 4, func(c0 *message.IKEPayloadContainer, d []byte) { c0.BuildIdentificationInitiator(3, d) }},
		{"idr", 4, func(c0 *message.IKEPayloadContainer, d []byte) { c0.BuildIdentificationResponder(2, d) }},
		{"cert", 1, func(c0 *message.IKEPayloadContainer, d []byte) { c0.BuildCertificate(4, d) }},
		{"auth", 4, func(c0 *message.IKEPayloadContainer, d []byte) { c0.BuildAuthentication(2, d) }},
		{"notify-data", 4, func(c0 *message.IKEPayloadContainer, d []byte) { c0.BuildNotification(0, 55501, nil, d) }},
		{"sk", 0, func(c0 *message.IKEPayloadContainer, d []byte) { c0.BuildEncrypted(message.NoNext, d) }},
	} {
		lim := 65535 - 4 - bc.fixed
		for _, l := range []int{lim - 1, lim, lim + 1, 65535, 65536, 70000} {
			var c0 message.IKEPayloadContainer
			c0.BuildNonce(g.bytes(8))
			bc.build(&c0, g.bytes(l))
			check("payload-"+bc.what, l, l <= lim, c0)
		}
	}
	for _, l := range []int{65511, 65512, 65523, 65524, 65535, 65536, 70000} {
		var c0 message.IKEPayloadContainer
		sa := c0.BuildSecurityAssociation()
		p := sa.Proposals.BuildProposal(1, 1, nil)
		at := uint16(20)
		p.EncryptionAlgorithm.BuildTransform(1, 12, &at, nil, g.bytes(l))
		check("tlv-value", l, 4+8+8+4+l <= 65535, c0)
	}
	for _, l := range []int{65515, 65516, 65535, 65536, 70000} {
		var c0 message.IKEPayloadContainer
		cp := c0.BuildConfiguration(1)
		cp.ConfigurationAttribute.BuildConfigurationAttribute(1, g.bytes(4))
		cp.ConfigurationAttribute.BuildConfigurationAttribute(2, g.bytes(l))
		check("cp-attr-value", l, 4+4+8+4+l <= 65535, c0)
	}
	for _, l := range []int{65514, 65515, 65516, 65519, 65520, 65535} {
		var c0 message.IKEPayloadContainer
		if err := c0.BuildEAP5GNAS(7, g.bytes(l)); err != nil {
			c.violate(Violation{Suite: s.Name, Kind: "property", Index: idx, Class: "oversize-result", Desc: "BuildEAP5GNAS refuses a NAS PDU of at most 65535 octets", Input: fmt.Sprintf("oversize eap5gnas %d", l), Expected: "ok", Actual: "err"})
			continue
		}
		check("eap5gnas", l, 4+16+l <= 65535, c0)
	}
	for _, l := range []int{65519, 65520, 65524, 70000} {
		var c0 message.IKEPayloadContainer
		e := c0.BuildEAP(eap.EapCodeResponse, 9)
		e.EapTypeData = message.BuildEapExpanded(10415, 3, g.bytes(l))
		check("eap-expanded-data", l, 4+4+8+l <= 65535, c0)
	}
	for _, n := range []int{16381, 16382, 65535, 65536, 70000} {
		var c0 message.IKEPayloadContainer
		spis := make([]uint32, n)
		for i := range spis {
			spis[i] = uint32(g.u32())
		}
		c0.BuildDeletePayload(3, 4, uint16(n), spis)
		check("delete-spis", n, 4+4+4*n <= 65535, c0)
	}
	// integer arguments wider than their wire field: silently masked at encoding time (outside the property's argument domains; reported)
	{
		var c0 message.IKEPayloadContainer
		e := c0.BuildEAP(eap.EapCodeRequest, 1)
		e.EapTypeData = message.BuildEapExpanded(0x01000000|10415, 3, []byte{1, 0})
		b, err := c0.Encode()
		var c1 message.IKEPayloadContainer
		cp := c1.BuildConfiguration(1)
		cp.ConfigurationAttribute.BuildConfigurationAttribute(0x8001, []byte{1, 2, 3, 4})
		b1, err1 := c1.Encode()
		c.note("observation (integer arguments, not in C19's quantifier): BuildEapExpanded(vendorID=0x010028AF) encodes as vendor id 10415 (24-bit field masked, err=%v, %s); BuildConfigurationAttribute(type=0x8001) encodes as type 1 (reserved bit masked, err=%v, %s); EAP.Marshal alone truncates the EAP Length of a packet > 65535 octets, IKEPayloadContainer.Encode refuses such a payload",
			err, hx(b), err1, hx(b1))
	}
}

func (c *Ctx) c19Replay(g *Gen) {
	s := c.suite("replay", "oracle", "replay of one recorded case")
	in := c.replay.Input
	switch {
	case strings.HasPrefix(in, "build "):
		cs := c19ParseLine(in)
		c.c19One(s, cs, 0, nil, 0)
	default:
		// header / limit cases are deterministic and cheap: run those suites again
		c.replay = nil
		var dummy []corrCase
		c.c19Header(g, &dummy)
		c.c19Oversize(g, &dummy)
	}
}
