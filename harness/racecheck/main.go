// racecheck: supporting oracle of C18.  Built with `go build -race`.
//
// N goroutines, each with its own seed, its own SA key objects and its own
// messages, run a random operation sequence over the library's entry points.
// The transcript of every goroutine (canonical outcome strings that do not
// depend on real randomness) must equal the transcript of the same sequence
// run alone, sequentially, in the same process beforehand.  crypto/rand.Reader
// is never replaced here (it is a process-wide global).
//
// Output: `OK ops=<n> goroutines=<N> steps=<K>` (exit 0) |
//
//	`DIFF goroutine=<i> step=<j> op=<name> alone=<..> concurrent=<..>` (exit 1) |
//	`PANIC goroutine=<i> step=<j> op=<name> in both runs: ...` (informational: the same
//	panic alone and concurrently is not an interference) |
//	`RACE` after the race detector's report (exit 66).
//
// The program re-executes itself as a child with GORACE="exitcode=66
// halt_on_error=1" so that it can print the RACE line after the runtime
// halted the child (atexit_sleep_ms is lowered from its 1 s default: every
// goroutine has been joined before the process exits).
//
// This is a different package main than the harness: the few helpers it needs
// are duplicated here on purpose.
package main

import (
	"bytes"
	crand "crypto/rand"
	"crypto/sha256"
	"flag"
	"fmt"
	"math/big"
	mrand "math/rand"
	"os"
	"os/exec"
	"strings"
	"sync"
	"sync/atomic"

	ike "github.com/free5gc/ike"
	"github.com/free5gc/ike/eap"
	"github.com/free5gc/ike/message"
	"github.com/free5gc/ike/security"
	"github.com/free5gc/ike/security/dh"
	"github.com/free5gc/ike/security/encr"
	"github.com/free5gc/ike/security/esn"
	"github.com/free5gc/ike/security/integ"
	"github.com/free5gc/ike/security/prf"
)

var encrNames = []string{"ENCR_AES_CBC_128", "ENCR_AES_CBC_192", "ENCR_AES_CBC_256"}
var integNames = []string{"AUTH_HMAC_MD5_96", "AUTH_HMAC_SHA1_96", "AUTH_HMAC_SHA2_256_128"}
var prfNames = []string{"PRF_HMAC_MD5", "PRF_HMAC_SHA1", "PRF_HMAC_SHA2_256"}
var dhNames = []string{"DH_1024_BIT_MODP", "DH_2048_BIT_MODP"}
var esnNames = []string{"ESN_ENABLE", "ESN_DISABLE"}

func digest(b []byte) string {
	h := sha256.Sum256(b)
	return fmt.Sprintf("%d:%x", len(b), h[:8])
}

func rbytes(r *mrand.Rand, n int) []byte {
	b := make([]byte, n)
	r.Read(b)
	return b
}

// ---------------------------------------------------------------------------
// per-goroutine world

type keyset struct {
	e, i, p                   int
	d, ai, ar, ei, er, pi, pr []byte
}

func newKeyset(r *mrand.Rand) *keyset {
	k := &keyset{e: r.Intn(3), i: r.Intn(3), p: r.Intn(3)}
	el := encr.StrToType(encrNames[k.e]).GetKeyLength()
	il := integ.StrToType(integNames[k.i]).GetKeyLength()
	pl := prf.StrToType(prfNames[k.p]).GetKeyLength()
	k.d, k.ai, k.ar, k.ei, k.er, k.pi, k.pr = rbytes(r, pl), rbytes(r, il), rbytes(r, il), rbytes(r, el), rbytes(r, el), rbytes(r, pl), rbytes(r, pl)
	return k
}

func newSA(k *keyset) *security.IKESAKey {
	sa := &security.IKESAKey{
		DhInfo:    dh.StrToType(dhNames[1]),
		EncrInfo:  encr.StrToType(encrNames[k.e]),
		IntegInfo: integ.StrToType(integNames[k.i]),
		PrfInfo:   prf.StrToType(prfNames[k.p]),
	}
	cp := func(b []byte) []byte { return append([]byte{}, b...) }
	sa.SK_d, sa.SK_ai, sa.SK_ar, sa.SK_ei, sa.SK_er, sa.SK_pi, sa.SK_pr = cp(k.d), cp(k.ai), cp(k.ar), cp(k.ei), cp(k.er), cp(k.pi), cp(k.pr)
	sa.Prf_d = sa.PrfInfo.Init(sa.SK_d)
	sa.Integ_i = sa.IntegInfo.Init(sa.SK_ai)
	sa.Integ_r = sa.IntegInfo.Init(sa.SK_ar)
	var err error
	if sa.Encr_i, err = sa.EncrInfo.NewCrypto(sa.SK_ei); err != nil {
		panic(err)
	}
	if sa.Encr_r, err = sa.EncrInfo.NewCrypto(sa.SK_er); err != nil {
		panic(err)
	}
	sa.Prf_i = sa.PrfInfo.Init(sa.SK_pi)
	sa.Prf_r = sa.PrfInfo.Init(sa.SK_pr)
	return sa
}

func genEAP(r *mrand.Rand) *eap.EAP {
	e := &eap.EAP{Code: eap.EapCode(1 + r.Intn(2)), Identifier: uint8(r.Intn(256))}
	switch r.Intn(5) {
	case 0:
		e.EapTypeData = &eap.EapIdentity{IdentityData: rbytes(r, 1+r.Intn(40))}
	case 1:
		e.EapTypeData = &eap.EapNotification{NotificationData: rbytes(r, 1+r.Intn(40))}
	case 2:
		e.EapTypeData = &eap.EapExpanded{VendorID: 10415, VendorType: 3, VendorData: rbytes(r, r.Intn(60))}
	default:
		a := eap.NewEapAkaPrime(eap.EapAkaSubtype(1))
		_ = a.SetAttr(eap.AT_RAND, rbytes(r, 16))
		_ = a.SetAttr(eap.AT_AUTN, rbytes(r, 16))
		if r.Intn(2) == 0 {
			_ = a.SetAttr(eap.AT_KDF, []byte{0, 1})
		}
		if r.Intn(2) == 0 {
			_ = a.SetAttr(eap.AT_KDF_INPUT, rbytes(r, 1+r.Intn(40)))
		}
		if r.Intn(2) == 0 {
			_ = a.SetAttr(eap.AT_RES, rbytes(r, 4+r.Intn(13)))
		}
		_ = a.SetAttr(eap.AT_MAC, make([]byte, 16))
		e.EapTypeData = a
	}
	return e
}

func genTransform(r *mrand.Rand, tt uint8) *message.Transform {
	switch r.Intn(3) {
	case 0:
		return &message.Transform{TransformType: tt, TransformID: uint16(r.Intn(30))}
	case 1:
		return &message.Transform{TransformType: tt, TransformID: uint16(r.Intn(30)), AttributePresent: true, AttributeFormat: 1, AttributeType: 14, AttributeValue: uint16(128 + 64*r.Intn(3))}
	}
	return &message.Transform{TransformType: tt, TransformID: uint16(r.Intn(30)), AttributePresent: true, AttributeFormat: 0, AttributeType: uint16(r.Intn(100)), VariableLengthAttributeValue: rbytes(r, 1+r.Intn(12))}
}

func genPayload(r *mrand.Rand) message.IKEPayload {
	switch r.Intn(13) {
	case 0:
		sa := &message.SecurityAssociation{}
		for i := 0; i < 1+r.Intn(2); i++ {
			p := &message.Proposal{ProposalNumber: uint8(i + 1), ProtocolID: uint8(1 + r.Intn(3)), SPI: rbytes(r, []int{0, 4, 8}[r.Intn(3)])}
			p.EncryptionAlgorithm = append(p.EncryptionAlgorithm, genTransform(r, 1))
			p.PseudorandomFunction = append(p.PseudorandomFunction, genTransform(r, 2))
			p.IntegrityAlgorithm = append(p.IntegrityAlgorithm, genTransform(r, 3))
			p.DiffieHellmanGroup = append(p.DiffieHellmanGroup, genTransform(r, 4))
			if r.Intn(2) == 0 {
				p.ExtendedSequenceNumbers = append(p.ExtendedSequenceNumbers, genTransform(r, 5))
			}
			sa.Proposals = append(sa.Proposals, p)
		}
		return sa
	case 1:
		return &message.KeyExchange{DiffieHellmanGroup: uint16(r.Intn(20)), KeyExchangeData: rbytes(r, 1+r.Intn(256))}
	case 2:
		return &message.IdentificationInitiator{IDType: uint8(r.Intn(12)), IDData: rbytes(r, 1+r.Intn(30))}
	case 3:
		return &message.IdentificationResponder{IDType: uint8(r.Intn(12)), IDData: rbytes(r, 1+r.Intn(30))}
	case 4:
		return &message.Certificate{CertificateEncoding: uint8(r.Intn(14)), CertificateData: rbytes(r, 1+r.Intn(100))}
	case 5:
		return &message.Authentication{AuthenticationMethod: uint8(r.Intn(4)), AuthenticationData: rbytes(r, 1+r.Intn(64))}
	case 6:
		return &message.Nonce{NonceData: rbytes(r, 16+r.Intn(48))}
	case 7:
		return &message.Notification{ProtocolID: uint8(r.Intn(4)), NotifyMessageType: uint16(r.Intn(65536)), SPI: rbytes(r, []int{0, 4, 8}[r.Intn(3)]), NotificationData: rbytes(r, r.Intn(40))}
	case 8:
		n := r.Intn(4)
		d := &message.Delete{ProtocolID: 3, SPISize: 4, NumberOfSPI: uint16(n)}
		for i := 0; i < n; i++ {
			d.SPIs = append(d.SPIs, r.Uint32())
		}
		if n == 0 {
			d.ProtocolID, d.SPISize = 1, 0
		}
		return d
	case 9:
		return &message.VendorID{VendorIDData: rbytes(r, r.Intn(40))}
	case 10:
		ts := &message.TrafficSelectorInitiator{}
		for i := 0; i < 1+r.Intn(3); i++ {
			ts.TrafficSelectors = append(ts.TrafficSelectors, &message.IndividualTrafficSelector{TSType: 7, IPProtocolID: uint8(r.Intn(256)),
				StartPort: uint16(r.Intn(65536)), EndPort: uint16(r.Intn(65536)), StartAddress: rbytes(r, 4), EndAddress: rbytes(r, 4)})
		}
		return ts
	case 11:
		c := &message.Configuration{ConfigurationType: uint8(1 + r.Intn(4))}
		for i := 0; i < 1+r.Intn(3); i++ {
			c.ConfigurationAttribute = append(c.ConfigurationAttribute, &message.IndividualConfigurationAttribute{Type: uint16(r.Intn(30)), Value: rbytes(r, r.Intn(20))})
		}
		return c
	}
	return &message.PayloadEap{EAP: genEAP(r)}
}

func genMsg(r *mrand.Rand) *message.IKEMessage {
	var ps message.IKEPayloadContainer
	for i := 0; i < r.Intn(5); i++ {
		ps = append(ps, genPayload(r))
	}
	return message.NewMessage(r.Uint64(), r.Uint64(), uint8(34+r.Intn(4)), r.Intn(2) == 0, r.Intn(2) == 0, r.Uint32(), ps)
}

// canonical form of a decoded message: its re-encoding (the codec round trip is C03/C12's subject)
func canon(m *message.IKEMessage) string {
	b, err := m.Encode()
	if err != nil {
		return "unencodable"
	}
	types := make([]string, len(m.Payloads))
	for i, p := range m.Payloads {
		types[i] = fmt.Sprint(uint8(p.Type()))
	}
	return strings.Join(types, ",") + " " + digest(b)
}

func safely(f func() string) (out string) {
	defer func() {
		if p := recover(); p != nil {
			out = fmt.Sprint("panic: ", p)
		}
	}()
	return f()
}

// the datagrams every goroutine decodes concurrently without copying them
type sharedInputs struct {
	plain  []byte
	prot   []byte
	keys   *keyset
	sender message.Role
	eapPkt []byte
}

type world struct {
	r        *mrand.Rand
	k        *keyset
	a, b     *security.IKESAKey // two objects holding the same keys: this goroutine's two endpoints
	lastProt []byte
	lastRole message.Role
	sh       *sharedInputs
}

type op struct {
	name string
	f    func(w *world) string
}

var ops = []op{
	{"Encode", func(w *world) string {
		b, err := genMsg(w.r).Encode()
		if err != nil {
			return "err"
		}
		return "ok " + digest(b)
	}},
	{"Decode", func(w *world) string {
		b, err := genMsg(w.r).Encode()
		if err != nil {
			return "skip"
		}
		if w.r.Intn(3) == 0 && len(b) > 0 {
			b[w.r.Intn(len(b))] ^= 1 << uint(w.r.Intn(8))
		}
		return safely(func() string {
			defer func() {
				if p := recover(); p != nil { // a panic of Decode / of re-encoding the decoded value is C04 / C12's subject; keep the input
					panic(fmt.Sprintf("%v on input x%x", p, b))
				}
			}()
			m := new(message.IKEMessage)
			if err := m.Decode(b); err != nil {
				return "err"
			}
			return "ok " + canon(m)
		})
	}},
	{"EncodeEncrypt+DecodeDecrypt", func(w *world) string {
		m := genMsg(w.r)
		plain, err := genMsg2(m).Encode()
		if err != nil {
			return "skip"
		}
		role := message.Role(w.r.Intn(2) == 0)
		b, err := ike.EncodeEncrypt(m, w.a, role)
		if err != nil {
			return "protect-err"
		}
		w.lastProt, w.lastRole = b, role
		var hdr *message.IKEHeader
		if w.r.Intn(2) == 0 {
			if hdr, err = message.ParseHeader(b); err != nil {
				return "hdr-err"
			}
		}
		dm, err := ike.DecodeDecrypt(b, hdr, w.b, !role)
		if err != nil {
			return fmt.Sprintf("ok len=%d unprotect-err", len(b))
		}
		db, err := dm.Encode()
		if err != nil {
			return "reencode-err"
		}
		return fmt.Sprintf("ok len=%d roundtrip=%v %s", len(b), bytes.Equal(db, plain), digest(db))
	}},
	{"DecodeDecrypt-forged", func(w *world) string {
		if w.lastProt == nil {
			return "skip"
		}
		b := append([]byte{}, w.lastProt...)
		recv := !w.lastRole
		switch w.r.Intn(3) {
		case 0:
			b[w.r.Intn(len(b))] ^= 1 << uint(w.r.Intn(8))
		case 1:
			b = b[:w.r.Intn(len(b))]
		case 2:
			recv = w.lastRole // reflected
		}
		m, err := ike.DecodeDecrypt(b, nil, w.b, recv)
		if len(b) >= 28 && b[16] == 46 { // still presents SK: must be rejected
			if err != nil {
				return "err"
			}
			return "forgery-accepted " + canon(m)
		}
		// handled as an unprotected datagram whose payload bodies are the random IV and
		// ciphertext: nothing about the outcome is independent of the random source
		return "not-sk"
	}},
	{"GenerateKeyForIKESA", func(w *world) string {
		sa := &security.IKESAKey{DhInfo: dh.StrToType(dhNames[w.r.Intn(2)]), EncrInfo: encr.StrToType(encrNames[w.r.Intn(3)]),
			IntegInfo: integ.StrToType(integNames[w.r.Intn(3)]), PrfInfo: prf.StrToType(prfNames[w.r.Intn(3)])}
		if err := sa.GenerateKeyForIKESA(rbytes(w.r, 32+w.r.Intn(32)), rbytes(w.r, 128), w.r.Uint64(), w.r.Uint64()); err != nil {
			return "err"
		}
		return "ok " + digest(bytes.Join([][]byte{sa.SK_d, sa.SK_ai, sa.SK_ar, sa.SK_ei, sa.SK_er, sa.SK_pi, sa.SK_pr}, []byte{'|'}))
	}},
	{"GenerateKeyForChildSA", func(w *world) string {
		ch := &security.ChildSAKey{EncrKInfo: encr.StrToKType(encrNames[w.r.Intn(3)])}
		if i := w.r.Intn(4); i < 3 {
			ch.IntegKInfo = integ.StrToKType(integNames[i])
		}
		sa := w.a
		if w.r.Intn(2) == 0 {
			sa = w.b
		}
		if err := ch.GenerateKeyForChildSA(sa, rbytes(w.r, 32+w.r.Intn(32))); err != nil {
			return "err"
		}
		return "ok " + digest(bytes.Join([][]byte{ch.InitiatorToResponderEncryptionKey, ch.InitiatorToResponderIntegrityKey,
			ch.ResponderToInitiatorEncryptionKey, ch.ResponderToInitiatorIntegrityKey}, []byte{'|'}))
	}},
	{"DH", func(w *world) string {
		g := dh.StrToType(dhNames[w.r.Intn(2)])
		x := new(big.Int).SetBytes(rbytes(w.r, 24))
		y := new(big.Int).SetBytes(rbytes(w.r, 24))
		px, py := g.GetPublicValue(x), g.GetPublicValue(y)
		s1 := g.GetSharedKey(x, new(big.Int).SetBytes(py))
		s2 := g.GetSharedKey(y, new(big.Int).SetBytes(px))
		return fmt.Sprintf("ok %s %s agree=%v", digest(px), digest(s1), bytes.Equal(s1, s2))
	}},
	{"DH-peer-value-from-the-wire", func(w *world) string {
		// the peer's KE data is whatever arrived: shorter or longer than the modulus, 0, 1, p-1, >= p, all ones
		g := dh.StrToType(dhNames[w.r.Intn(2)])
		x := new(big.Int).SetBytes(rbytes(w.r, 24))
		n := len(g.GetPublicValue(big.NewInt(1)))
		var peer []byte
		switch w.r.Intn(6) {
		case 0:
			peer = rbytes(w.r, n+1+w.r.Intn(8))
		case 1:
			peer = bytes.Repeat([]byte{0xff}, n)
		case 2:
			peer = bytes.Repeat([]byte{0xff}, n+1)
		case 3:
			peer = rbytes(w.r, 1+w.r.Intn(n))
		case 4:
			peer = []byte{byte(w.r.Intn(3))}
		default:
			peer = append([]byte{0xff, 0xff, 0xff, 0xff, 0xff, 0xff, 0xff, 0xff, 0xff}, rbytes(w.r, n-9)...)
		}
		return "ok " + digest(g.GetSharedKey(x, new(big.Int).SetBytes(peer)))
	}},
	{"transform-mapping", func(w *world) string {
		var sb strings.Builder
		for _, n := range encrNames {
			t := encr.StrToType(n)
			tr, err := encr.ToTransform(t)
			tk, err2 := encr.ToTransformChildSA(encr.StrToKType(n))
			if err != nil || err2 != nil {
				return "err"
			}
			fmt.Fprintf(&sb, "%v%v%d/%d ", encr.DecodeTransform(tr) == t, encr.DecodeTransformChildSA(tk) == encr.StrToKType(n), t.TransformID(), t.GetKeyLength())
		}
		for _, n := range integNames {
			t := integ.StrToType(n)
			fmt.Fprintf(&sb, "%v%v%d/%d/%d ", integ.DecodeTransform(integ.ToTransform(t)) == t,
				integ.DecodeTransformChildSA(integ.ToTransformChildSA(integ.StrToKType(n))) == integ.StrToKType(n), t.TransformID(), t.GetKeyLength(), t.GetOutputLength())
		}
		for _, n := range prfNames {
			t := prf.StrToType(n)
			fmt.Fprintf(&sb, "%v%d/%d ", prf.DecodeTransform(prf.ToTransform(t)) == t, t.TransformID(), t.GetKeyLength())
		}
		for _, n := range dhNames {
			t := dh.StrToType(n)
			fmt.Fprintf(&sb, "%v%d ", dh.DecodeTransform(dh.ToTransform(t)) == t, t.TransformID())
		}
		for _, n := range esnNames {
			t, err := esn.StrToType(n)
			if err != nil {
				return "err"
			}
			t2, err := esn.DecodeTransform(esn.ToTransform(t))
			fmt.Fprintf(&sb, "%v%v%d ", err == nil, t2 == t, t.TransformID())
		}
		// an arbitrary transform: mostly unknown
		tr := genTransform(w.r, uint8(1+w.r.Intn(5)))
		fmt.Fprintf(&sb, "%v%v%v%v", encr.DecodeTransform(tr) == nil, integ.DecodeTransform(tr) == nil, prf.DecodeTransform(tr) == nil, dh.DecodeTransform(tr) == nil)
		p, err := w.a.ToProposal()
		if err != nil {
			return "err"
		}
		return "ok " + sb.String() + fmt.Sprintf(" %d%d%d%d", len(p.EncryptionAlgorithm), len(p.IntegrityAlgorithm), len(p.PseudorandomFunction), len(p.DiffieHellmanGroup))
	}},
	{"error-paths", func(w *world) string {
		// what a receiver does with input it has to refuse: the error paths run concurrently too
		var sb strings.Builder
		// EAP-AKA' packets with attribute types the library has no name for, wrong lengths, truncated
		for k := 0; k < 3; k++ {
			pkt := []byte{byte(1 + w.r.Intn(2)), byte(w.r.Intn(256)), 0, 0, 50, byte(1 + w.r.Intn(5)), 0, 0}
			for n := w.r.Intn(4); n >= 0; n-- {
				t := byte([]int{5, 6, 7, 8, 9, 10, 13, 15, 16, 17, 21, 25, 129, 130, 135, 200, 255}[w.r.Intn(17)])
				words := byte(w.r.Intn(4))
				pkt = append(pkt, t, words)
				pkt = append(pkt, rbytes(w.r, w.r.Intn(14))...)
			}
			pkt[2], pkt[3] = byte(len(pkt)>>8), byte(len(pkt))
			e := new(eap.EAP)
			if err := e.Unmarshal(pkt); err != nil {
				sb.WriteString("e")
			} else {
				sb.WriteString("o")
				if a, ok := e.EapTypeData.(*eap.EapAkaPrime); ok {
					if _, err := a.GetAttr(eap.EapAkaPrimeAttrType(w.r.Intn(256))); err != nil {
						sb.WriteString("g")
					}
					if err := a.SetAttr(eap.EapAkaPrimeAttrType(w.r.Intn(256)), rbytes(w.r, w.r.Intn(20))); err != nil {
						sb.WriteString("s")
					}
				}
			}
		}
		// datagrams: random octets behind a plausible header, unknown critical payloads, truncated chains
		for k := 0; k < 3; k++ {
			b := rbytes(w.r, 28+w.r.Intn(40))
			b[17] = 0x20
			b[16] = byte([]int{33, 34, 40, 41, 46, 47, 48, 200}[w.r.Intn(8)])
			b[24], b[25], b[26], b[27] = 0, 0, 0, byte(len(b))
			m := new(message.IKEMessage)
			if err := m.Decode(b); err != nil {
				sb.WriteString("E")
			} else {
				sb.WriteString("O")
			}
			if _, err := ike.DecodeDecrypt(b, nil, w.a, message.Role(k%2 == 0)); err != nil {
				sb.WriteString("D")
			}
		}
		// unsupported transforms through every registry
		tr := &message.Transform{TransformType: uint8(1 + w.r.Intn(5)), TransformID: uint16(w.r.Intn(65536)), AttributePresent: w.r.Intn(2) == 0, AttributeFormat: 1, AttributeType: uint16(w.r.Intn(20)), AttributeValue: uint16(w.r.Intn(600))}
		sb.WriteString(fmt.Sprintf(" %v%v%v%v%v", encr.DecodeTransform(tr) == nil, integ.DecodeTransform(tr) == nil, prf.DecodeTransform(tr) == nil, dh.DecodeTransform(tr) == nil, encr.DecodeTransformChildSA(tr) == nil))
		if _, err := w.a.EncrInfo.NewCrypto(rbytes(w.r, w.r.Intn(40))); err != nil {
			sb.WriteString("k")
		}
		return "ok " + sb.String()
	}},
	{"EAP", func(w *world) string {
		e := genEAP(w.r)
		b, err := e.Marshal()
		if err != nil {
			return "marshal-err"
		}
		out := "ok " + digest(b)
		if w.r.Intn(3) == 0 && len(b) > 0 {
			b[w.r.Intn(len(b))] ^= 1 << uint(w.r.Intn(8))
		}
		e2 := new(eap.EAP)
		if err := e2.Unmarshal(b); err != nil {
			out += " unmarshal-err"
		} else if b2, err := e2.Marshal(); err != nil {
			out += " remarshal-err"
		} else {
			out += " " + digest(b2)
		}
		if e.EapTypeData != nil && e.EapTypeData.Type() == eap.EapTypeAkaPrime {
			mac, err := e.CalcEapAkaPrimeAtMAC(rbytes(w.r, 32))
			if err != nil {
				out += " mac-err"
			} else {
				out += " mac=" + digest(mac)
			}
		}
		ke, ka, kr, msk, emsk, err := eap.EapAkaPrimePRF(rbytes(w.r, 16), rbytes(w.r, 16), fmt.Sprintf("id-%d", w.r.Intn(1000)))
		if err != nil {
			return out + " prf-err"
		}
		return out + " prf=" + digest(bytes.Join([][]byte{ke, ka, kr, msk, emsk}, nil))
	}},
	{"random", func(w *world) string {
		n, err := security.GenerateRandomNumber()
		if err != nil {
			return "err"
		}
		lo := new(big.Int).Sub(new(big.Int).Lsh(big.NewInt(1), 128), big.NewInt(1))
		hi := new(big.Int).Sub(new(big.Int).Lsh(big.NewInt(1), 2048), big.NewInt(1))
		if _, err := security.GenerateRandomUint8(); err != nil {
			return "err"
		}
		return fmt.Sprintf("ok above-min=%v below-max=%v", n.Cmp(lo) > 0, n.Cmp(hi) < 0)
	}},
	{"decode-shared-input", func(w *world) string {
		// ONE byte slice per datagram, shared read-only by all goroutines
		m := new(message.IKEMessage)
		out := "plain:"
		if err := m.Decode(w.sh.plain); err != nil {
			out += "err"
		} else {
			out += canon(m)
		}
		var hdr *message.IKEHeader
		if w.r.Intn(2) == 0 {
			hdr, _ = message.ParseHeader(w.sh.prot)
		}
		dm, err := ike.DecodeDecrypt(w.sh.prot, hdr, newSA(w.sh.keys), !w.sh.sender)
		if err != nil {
			out += " prot:err"
		} else {
			out += " prot:" + canon(dm)
		}
		e := new(eap.EAP)
		if err := e.Unmarshal(w.sh.eapPkt); err != nil {
			return out + " eap:err"
		}
		b, _ := e.Marshal()
		return out + " eap:" + digest(b) + fmt.Sprintf(" intact=%v", bytes.Equal(b, w.sh.eapPkt))
	}},
}

// a second, independent copy of the message (EncodeEncrypt rewrites the one it is given)
func genMsg2(m *message.IKEMessage) *message.IKEMessage {
	h := *m.IKEHeader
	return &message.IKEMessage{IKEHeader: &h, Payloads: append(message.IKEPayloadContainer{}, m.Payloads...)}
}

type stepOut struct{ name, out string }

// misuse != nil: negative control, every goroutine works on the SAME pair of SA objects
func runScript(seed int64, steps int, sh *sharedInputs, misuse *world) []stepOut {
	r := mrand.New(mrand.NewSource(seed))
	k := newKeyset(r)
	w := &world{r: r, k: k, a: newSA(k), b: newSA(k), sh: sh}
	if misuse != nil {
		w.k, w.a, w.b = misuse.k, misuse.a, misuse.b
	}
	out := make([]stepOut, 0, steps)
	for j := 0; j < steps; j++ {
		o := ops[r.Intn(len(ops))]
		if o.name == "DH" && r.Intn(3) != 0 { // modular exponentiation under -race is slow: thin it out
			o = ops[0]
		}
		if sh == nil && o.name == "decode-shared-input" { // cold start: nothing was prepared beforehand
			o = ops[0]
		}
		out = append(out, stepOut{o.name, safely(func() string { return o.f(w) })})
	}
	return out
}

func makeShared(seed int64) *sharedInputs {
	r := mrand.New(mrand.NewSource(seed ^ 0x5eed))
	sh := &sharedInputs{keys: newKeyset(r), sender: message.Role_Initiator}
	for {
		m := genMsg(r)
		if len(m.Payloads) == 0 {
			continue
		}
		var err error
		if sh.plain, err = genMsg2(m).Encode(); err != nil {
			continue
		}
		if sh.prot, err = ike.EncodeEncrypt(m, newSA(sh.keys), sh.sender); err != nil {
			continue
		}
		break
	}
	for {
		e := genEAP(r)
		var err error
		if sh.eapPkt, err = e.Marshal(); err == nil {
			break
		}
	}
	return sh
}

// cold start: the goroutines make the very FIRST calls into the library in this process, all at once (whatever the
// library initialises lazily is initialised under contention); the solo runs for comparison come afterwards
func coldChild(seed int64, n, steps int) int {
	seeds := make([]int64, n)
	for i := range seeds {
		seeds[i] = seed*1000003 + int64(i)*7919 + 1
	}
	conc := make([][]stepOut, n)
	var wg sync.WaitGroup
	start := make(chan struct{})
	for i := range seeds {
		wg.Add(1)
		go func(i int) {
			defer wg.Done()
			<-start
			conc[i] = runScript(seeds[i], steps, nil, nil)
		}(i)
	}
	close(start)
	wg.Wait()
	bad := 0
	for i := range seeds {
		alone := runScript(seeds[i], steps, nil, nil)
		for j := range alone {
			if alone[j] != conc[i][j] {
				fmt.Printf("DIFF goroutine=%d step=%d op=%s alone=%q concurrent(cold start)=%q\n", i, j, alone[j].name, alone[j].out, conc[i][j].out)
				bad++
				break
			}
		}
	}
	if bad > 0 {
		return 1
	}
	fmt.Printf("OK cold-start ops=%d goroutines=%d steps=%d\n", n*steps, n, steps)
	return 0
}

func child(seed int64, n, steps int, misuse bool) int {
	sh := makeShared(seed)
	var mw *world
	if misuse {
		k := sh.keys
		mw = &world{k: k, a: newSA(k), b: newSA(k)}
	}
	keep := func(b []byte) []byte { return append([]byte{}, b...) }
	plain0, prot0, eap0 := keep(sh.plain), keep(sh.prot), keep(sh.eapPkt)
	seeds := make([]int64, n)
	for i := range seeds {
		seeds[i] = seed*1000003 + int64(i)*7919 + 1
	}
	alone := make([][]stepOut, n)
	for i := range seeds {
		alone[i] = runScript(seeds[i], steps, sh, mw)
	}
	conc := make([][]stepOut, n)
	var wg sync.WaitGroup
	start := make(chan struct{})
	for i := range seeds {
		wg.Add(1)
		go func(i int) {
			defer wg.Done()
			<-start
			conc[i] = runScript(seeds[i], steps, sh, mw)
		}(i)
	}
	close(start)
	wg.Wait()
	bad := 0
	for i := range seeds {
		for j := range alone[i] {
			if alone[i][j] != conc[i][j] {
				fmt.Printf("DIFF goroutine=%d step=%d op=%s alone=%q concurrent=%q\n", i, j, alone[i][j].name, alone[i][j].out, conc[i][j].out)
				bad++
				break
			}
			if strings.HasPrefix(alone[i][j].out, "panic") {
				// the same panic alone and concurrently: not an interference (reported as a note; panics are C04's subject)
				fmt.Printf("PANIC goroutine=%d step=%d op=%s in both runs: %s\n", i, j, alone[i][j].name, alone[i][j].out)
			}
		}
	}
	if !bytes.Equal(plain0, sh.plain) || !bytes.Equal(prot0, sh.prot) || !bytes.Equal(eap0, sh.eapPkt) {
		fmt.Printf("DIFF goroutine=-1 step=-1 op=decode-shared-input the shared read-only input was modified\n")
		bad++
	}
	if bad > 0 {
		return 1
	}
	fmt.Printf("OK ops=%d goroutines=%d steps=%d\n", n*steps, n, steps)
	return 0
}

// atomicReader: splitmix64 over an atomic counter; safe for concurrent use; the octets are stored into p by
// ordinary (instrumented) writes, unlike the getrandom system call of the real source
type atomicReader struct{ ctr uint64 }

func (r *atomicReader) Read(p []byte) (int, error) {
	for i := 0; i < len(p); i += 8 {
		z := atomic.AddUint64(&r.ctr, 0x9e3779b97f4a7c15)
		z = (z ^ (z >> 30)) * 0xbf58476d1ce4e5b9
		z = (z ^ (z >> 27)) * 0x94d049bb133111eb
		z ^= z >> 31
		for j := 0; j < 8 && i+j < len(p); j++ {
			p[i+j] = byte(z >> (8 * uint(j)))
		}
	}
	return len(p), nil
}

func selftest() int {
	x := 0
	var wg sync.WaitGroup
	for i := 0; i < 4; i++ {
		wg.Add(1)
		go func() {
			defer wg.Done()
			for j := 0; j < 1000; j++ {
				x++
			}
		}()
	}
	wg.Wait()
	fmt.Println("selftest finished without a report", x)
	return 0
}

func main() {
	seed := flag.Int64("seed", 1, "seed")
	n := flag.Int("n", 8, "goroutines")
	steps := flag.Int("steps", 50, "operations per goroutine")
	isChild := flag.Bool("child", false, "run the check in this process")
	self := flag.Bool("selftest", false, "run a deliberate data race (must be reported)")
	misuse := flag.Bool("misuse", false, "negative control: all goroutines share one pair of SA key objects (a race in the library's use of them must be reported)")
	goreader := flag.Bool("goreader", false, "install a random source written in Go (concurrency-safe itself, plain writes into the buffer it is given) as crypto/rand.Reader: the race detector then sees where the library lets it write")
	cold := flag.Bool("cold", false, "the goroutines make the first calls into the library of this process (lazy initialisation under contention); solo runs afterwards")
	flag.Parse()
	if *isChild {
		if *goreader {
			crand.Reader = &atomicReader{}
		}
		if *self {
			os.Exit(selftest())
		}
		if *cold {
			os.Exit(coldChild(*seed, *n, *steps))
		}
		os.Exit(child(*seed, *n, *steps, *misuse))
	}
	exe, err := os.Executable()
	if err != nil {
		fmt.Println("cannot re-execute:", err)
		os.Exit(2)
	}
	cmd := exec.Command(exe, append([]string{"-child"}, os.Args[1:]...)...)
	cmd.Env = append(os.Environ(), "GORACE=exitcode=66 halt_on_error=1 atexit_sleep_ms=20")
	cmd.Stdout, cmd.Stderr = os.Stdout, os.Stderr
	err = cmd.Run()
	code := 0
	if ee, ok := err.(*exec.ExitError); ok {
		code = ee.ExitCode()
	} else if err != nil {
		fmt.Println("cannot run child:", err)
		code = 2
	}
	if code == 66 {
		fmt.Println("RACE")
	}
	os.Exit(code)
}
