package main

// ikeverif harness: calls the real free5gc/ike code in-process (built from
// /repo's working tree), runs (a) the direct property oracles, (b) the
// correspondence suites against the Lean driver.  One invocation = one
// property.  Output: a JSON report on -out (read by bin/check).

import (
	"encoding/json"
	"flag"
	"fmt"
	"hash/fnv"
	"os"
	"sort"
	"strings"
	"sync/atomic"
	"time"
)

// ---- watchdog: a call into the implementation that does not return is a
// violation of "never loops forever" (C04) and must not hang the check.
var (
	wdInCall   int32
	wdProgress int64
	wdCase     atomic.Value // string: the case being executed
	wdCtx      *Ctx
	wdOut      string
)

func setCase(text string) { wdCase.Store(text) }

// wall-clock limit of one harness run (seconds; 0 = none): a run that exceeds it writes its report and ends
// instead of living on when whoever started it has gone away
var maxWall int

func startWatchdog(limit int) {
	go func() {
		last, stale := int64(-1), 0
		t0 := time.Now()
		for {
			time.Sleep(time.Second)
			if maxWall > 0 && time.Since(t0) > time.Duration(maxWall)*time.Second {
				c := wdCtx
				in, _ := wdCase.Load().(string)
				c.violate(Violation{Suite: "watchdog", Kind: "correspondence", Class: "harness-wall-limit",
					Desc: fmt.Sprintf("the harness run exceeded its wall-clock limit of %d s (last case below)", maxWall), Input: clip(in)})
				writeReport(c, wdOut)
				os.Exit(1)
			}
			p := atomic.LoadInt64(&wdProgress)
			if atomic.LoadInt32(&wdInCall) == 1 && p == last {
				stale++
			} else {
				stale = 0
				last = p
			}
			if stale >= limit {
				c := wdCtx
				in, _ := wdCase.Load().(string)
				c.violate(Violation{Suite: "watchdog", Kind: "property", Class: "hang",
					Desc:  fmt.Sprintf("a call into the implementation did not return within %d s (work not bounded by the input length)", limit),
					Input: in, Expected: "value or error", Actual: "no return"})
				writeReport(c, wdOut)
				os.Exit(1)
			}
		}
	}()
}

func writeReport(c *Ctx, out string) {
	for _, s := range c.rep.Suites {
		s.seen = nil
	}
	data, _ := json.MarshalIndent(c.rep, "", " ")
	if out != "" {
		if err := os.WriteFile(out, data, 0o644); err != nil {
			fmt.Fprintln(os.Stderr, err)
			os.Exit(2)
		}
	} else {
		os.Stdout.Write(data)
	}
}

type Violation struct {
	Property string `json:"property"`
	Suite    string `json:"suite"`
	Kind     string `json:"kind"` // "property" (direct oracle) | "correspondence" (model vs impl)
	Index    int    `json:"index"`
	Seed     int64  `json:"seed"`
	Class    string `json:"class"` // classification used by known_findings.json
	Desc     string `json:"desc"`
	Input    string `json:"input"`
	Expected string `json:"expected"`
	Actual   string `json:"actual"`
}

type SuiteStat struct {
	Name        string         `json:"name"`
	Kind        string         `json:"kind"` // oracle | correspondence
	Evaluations int            `json:"evaluations"`
	Distinct    int            `json:"distinct_nontrivial"`
	Rule        string         `json:"rule"`
	Samples     []string       `json:"samples"`
	Dist        map[string]int `json:"distribution"`
	seen        map[uint64]struct{}
}

type Report struct {
	Property   string       `json:"property"`
	Tier       string       `json:"tier"`
	Seed       int64        `json:"seed"`
	Suites     []*SuiteStat `json:"suites"`
	Violations []Violation  `json:"violations"`
	WallS      float64      `json:"wall_s"`
	Notes      []string     `json:"notes"`
}

type Ctx struct {
	prop   string
	tier   string
	seed   int64
	driver string
	gendriver string // driver of the generated model (tools/go2lean), same line protocol
	rep    *Report
	maxV   int
	replay *Violation
}

func (c *Ctx) thorough() bool { return c.tier == "thorough" }

// n picks the budget by tier
func (c *Ctx) n(quick, thorough int) int {
	if c.thorough() {
		return thorough
	}
	return quick
}

func (c *Ctx) suite(name, kind, rule string) *SuiteStat {
	s := &SuiteStat{Name: name, Kind: kind, Rule: rule, Dist: map[string]int{}, seen: map[uint64]struct{}{}}
	c.rep.Suites = append(c.rep.Suites, s)
	return s
}

// record one evaluated case; nontrivial by the suite's rule
func (s *SuiteStat) add(caseText string, nontrivial bool, tags ...string) {
	s.Evaluations++
	if nontrivial {
		h := fnv.New64a()
		h.Write([]byte(caseText))
		k := h.Sum64()
		if _, ok := s.seen[k]; !ok {
			s.seen[k] = struct{}{}
			s.Distinct++
		}
	}
	if len(s.Samples) < 3 || (len(s.Samples) < 6 && nontrivial && s.Evaluations%97 == 0) {
		t := caseText
		if len(t) > 400 {
			t = t[:400] + "..."
		}
		s.Samples = append(s.Samples, t)
	}
	for _, t := range tags {
		s.Dist[t]++
	}
}

func (c *Ctx) violate(v Violation) {
	v.Property = c.prop
	v.Seed = c.seed
	if len(v.Input) > 200000 {
		v.Input = v.Input[:200000] + "...(truncated)"
	}
	if len(c.rep.Violations) < c.maxV {
		c.rep.Violations = append(c.rep.Violations, v)
	}
}

func (c *Ctx) note(format string, a ...interface{}) {
	c.rep.Notes = append(c.rep.Notes, fmt.Sprintf(format, a...))
}

type propFn func(c *Ctx)

var props = map[string]propFn{}

func main() {
	prop := flag.String("prop", "", "property id (C01..C20)")
	tier := flag.String("tier", "quick", "quick|thorough")
	seed := flag.Int64("seed", 1, "seed")
	out := flag.String("out", "", "report file")
	driver := flag.String("driver", "", "path of the Lean driver executable (empty: skip correspondence)")
	gendriver := flag.String("gendriver", "", "path of the driver of the model generated from the source (empty: skip)")
	replay := flag.String("replay", "", "replay file (a violation record)")
	facts := flag.String("facts", "", "write the facts table (registries, constants) as JSON to this file and exit")
	dict := flag.String("dict", "", "dictionary.json written by tools/extract (literals of the current source)")
	dictBase := flag.String("dict-base", "", "dictionary of the pinned tree (committed): literals not in it are drawn preferentially")
	c11child := flag.Int64("c11child", -1, "internal: child process of the C11 first-use-order suite")
	flag.IntVar(&maxWall, "maxwall", 0, "wall-clock limit of this run in seconds (0: none)")
	flag.Parse()
	if *dict != "" {
		loadDict(*dict, *dictBase)
	}

	if *c11child >= 0 {
		c11FirstUseChild(*c11child)
		return
	}
	if *facts != "" {
		if err := writeFacts(*facts); err != nil {
			fmt.Fprintln(os.Stderr, err)
			os.Exit(2)
		}
		return
	}

	c := &Ctx{prop: *prop, tier: *tier, seed: *seed, driver: *driver, gendriver: *gendriver, maxV: 20,
		rep: &Report{Property: *prop, Tier: *tier, Seed: *seed}}
	if *replay != "" {
		data, err := os.ReadFile(*replay)
		if err != nil {
			fmt.Fprintln(os.Stderr, err)
			os.Exit(2)
		}
		var v Violation
		if err := json.Unmarshal(data, &v); err != nil {
			fmt.Fprintln(os.Stderr, err)
			os.Exit(2)
		}
		if v.Input != "" { // a record without an input (broken proof / tie) is replayed by re-running the whole check
			c.replay = &v
		}
		c.prop = v.Property
		c.seed = v.Seed
		c.rep.Property = v.Property
		c.rep.Seed = v.Seed
	}
	fn, ok := props[c.prop]
	if !ok {
		ids := []string{}
		for k := range props {
			ids = append(ids, k)
		}
		sort.Strings(ids)
		fmt.Fprintf(os.Stderr, "unknown property %q (have %s)\n", c.prop, strings.Join(ids, " "))
		os.Exit(2)
	}
	t0 := time.Now()
	wdCtx, wdOut = c, *out
	startWatchdog(30)
	func() {
		defer func() {
			if p := recover(); p != nil {
				st, ok := p.(starved)
				if !ok {
					panic(p)
				}
				c.violate(Violation{Suite: "generator", Kind: "property", Class: "starved:" + st.what,
					Desc:  "the implementation refused 3000 consecutive generated inputs of the encodable domain (" + st.what + "): the operation the property quantifies over fails for (nearly) every input",
					Input: "", Expected: "ok for inputs of the encodable domain", Actual: "err / panic every time"})
			}
		}()
		fn(c)
	}()
	c.rep.WallS = time.Since(t0).Seconds()
	writeReport(c, *out)
	if len(c.rep.Violations) > 0 {
		os.Exit(1)
	}
}

// starved: a generator loop that retries until the implementation accepts an input of the encodable domain gave
// up (under a change of the code that makes such inputs fail every time the loop would never end)
type starved struct{ what string }

func retryCap(tries *int, what string) {
	*tries++
	if *tries > 3000 {
		panic(starved{what})
	}
}

// callRes: outcome of one call of the implementation, canonicalised
type callRes struct {
	kind string // ok | err | panic
	val  string
}

func (r callRes) String() string {
	if r.kind == "ok" {
		return "ok " + r.val
	}
	return r.kind
}

// guard runs f under recover
func guard(f func() (string, error)) (res callRes) {
	atomic.AddInt64(&wdProgress, 1)
	atomic.StoreInt32(&wdInCall, 1)
	defer atomic.StoreInt32(&wdInCall, 0)
	defer func() {
		if p := recover(); p != nil {
			res = callRes{kind: "panic", val: fmt.Sprint(p)}
		}
	}()
	v, err := f()
	if err != nil {
		return callRes{kind: "err"}
	}
	return callRes{kind: "ok", val: v}
}
