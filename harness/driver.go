package main

// Talking to the Lean model: one operation per line in, one result per line out.

import (
	"bufio"
	"bytes"
	"fmt"
	"os"
	"os/exec"
	"strings"
)

type corrCase struct {
	line  string // operation line sent to the driver
	goRes string // canonical outcome of the implementation
	tags  []string
	nontr bool
	// the operation exists only in the model GENERATED from the source (tools/go2lean): not sent to the hand-written driver
	genOnly bool
}

func (c *Ctx) runDriver(lines []string) ([]string, error) {
	return c.runDriverBin(c.driver, lines)
}

func (c *Ctx) runDriverBin(bin string, lines []string) ([]string, error) {
	if bin == "" {
		return nil, fmt.Errorf("no driver")
	}
	f, err := os.CreateTemp("", "ikeverif-ops-*.txt")
	if err != nil {
		return nil, err
	}
	defer os.Remove(f.Name())
	w := bufio.NewWriterSize(f, 1<<20)
	for _, l := range lines {
		w.WriteString(l)
		w.WriteByte('\n')
	}
	w.Flush()
	f.Close()
	in, err := os.Open(f.Name())
	if err != nil {
		return nil, err
	}
	defer in.Close()
	cmd := exec.Command(bin)
	cmd.Stdin = in
	var out, errb bytes.Buffer
	cmd.Stdout = &out
	cmd.Stderr = &errb
	if err := cmd.Run(); err != nil {
		return nil, fmt.Errorf("driver failed: %v: %s", err, errb.String())
	}
	res := strings.Split(strings.TrimRight(out.String(), "\n"), "\n")
	if len(lines) == 0 {
		res = nil
	}
	if len(res) != len(lines) {
		return nil, fmt.Errorf("driver returned %d lines for %d operations: %s", len(res), len(lines), errb.String())
	}
	return res, nil
}

// correspond runs the cases through the model and reports every disagreement.
func (c *Ctx) correspond(s *SuiteStat, cases []corrCase) {
	if c.driver == "" {
		c.note("suite %s: correspondence skipped (no driver)", s.Name)
		return
	}
	lines := make([]string, len(cases))
	for i, cs := range cases {
		lines[i] = cs.line
		if cs.genOnly {
			lines[i] = "noop"
		}
	}
	res, err := c.runDriver(lines)
	if err != nil {
		c.violate(Violation{Suite: s.Name, Kind: "correspondence", Class: "driver-failure", Desc: err.Error()})
		return
	}
	for i, cs := range cases {
		s.add(cs.line, cs.nontr, cs.tags...)
		if cs.genOnly {
			continue
		}
		if res[i] != cs.goRes {
			s.Dist["disagree"]++
			c.violate(Violation{Suite: s.Name, Kind: "correspondence", Index: i, Class: "model-vs-impl",
				Desc:  "Lean model and Go implementation disagree",
				Input: cs.line, Expected: "model: " + clip(res[i]), Actual: "impl: " + clip(cs.goRes)})
		}
	}
	c.correspondGenerated(s, cases)
}

// operations the generated model (Gen_message.lean) implements
func genEligible(line string) bool {
	for _, p := range []string{"dec msg ", "dec hdr ", "dec pl-", "dec chain-", "enc msg ", "reenc msg ",
		"dec eap ", "dec eapm-", "enc eap ", "reenc eap ", "akaset ", "akamac ", "akamac-built ", "akaprf ", "prfplus ", "dectr ", "dhpub ", "dhshared ", "cbc-encrypt ", "cbc-decrypt ",
		"genrandom ", "build ", "protect ", "unprotect ", "ikekeys ", "ikekeys2 ", "childkeys ", "childkeys2 ", "saops "} {
		if strings.HasPrefix(line, p) {
			return true
		}
	}
	return false
}

// the same cases through the model that tools/go2lean generated from the current source
func (c *Ctx) correspondGenerated(s *SuiteStat, cases []corrCase) {
	if c.gendriver == "" {
		return
	}
	var idx []int
	var lines []string
	for i, cs := range cases {
		if genEligible(cs.line) {
			idx = append(idx, i)
			lines = append(lines, cs.line)
		}
	}
	if len(lines) == 0 {
		return
	}
	res, err := c.runDriverBin(c.gendriver, lines)
	if err != nil {
		c.violate(Violation{Suite: s.Name, Kind: "correspondence", Class: "driver-failure", Desc: "generated model: " + err.Error()})
		return
	}
	for k, i := range idx {
		cs := cases[i]
		if res[k] == "unsupported" { // an operation on a part of the code that is not translated
			s.Dist["generated-model-unsupported"]++
			continue
		}
		s.Dist["generated-model-cases"]++
		if res[k] != cs.goRes {
			s.Dist["disagree"]++
			c.violate(Violation{Suite: s.Name, Kind: "correspondence", Index: i, Class: "generated-vs-impl",
				Desc:  "the model generated from the source by tools/go2lean and the Go implementation disagree (translator / GoRt fault)",
				Input: cs.line, Expected: "generated model: " + clip(res[k]), Actual: "impl: " + clip(cs.goRes)})
		}
	}
}

func clip(s string) string {
	if len(s) > 2000 {
		return s[:2000] + "..."
	}
	return s
}
