package main

// Talking to the Lean model: one operation per line in, one result per line out.

import (
	"bufio"
	"bytes"
	"fmt"
	"os"
	"os/exec"
	"strings"
)

type corrCase struct {
	line  string // operation line sent to the driver
	goRes string // canonical outcome of the implementation
	tags  []string
	nontr bool
}

func (c *Ctx) runDriver(lines []string) ([]string, error) {
	if c.driver == "" {
		return nil, fmt.Errorf("no driver")
	}
	f, err := os.CreateTemp("", "ikeverif-ops-*.txt")
	if err != nil {
		return nil, err
	}
	defer os.Remove(f.Name())
	w := bufio.NewWriterSize(f, 1<<20)
	for _, l := range lines {
		w.WriteString(l)
		w.WriteByte('\n')
	}
	w.Flush()
	f.Close()
	in, err := os.Open(f.Name())
	if err != nil {
		return nil, err
	}
	defer in.Close()
	cmd := exec.Command(c.driver)
	cmd.Stdin = in
	var out, errb bytes.Buffer
	cmd.Stdout = &out
	cmd.Stderr = &errb
	if err := cmd.Run(); err != nil {
		return nil, fmt.Errorf("driver failed: %v: %s", err, errb.String())
	}
	res := strings.Split(strings.TrimRight(out.String(), "\n"), "\n")
	if len(lines) == 0 {
		res = nil
	}
	if len(res) != len(lines) {
		return nil, fmt.Errorf("driver returned %d lines for %d operations: %s", len(res), len(lines), errb.String())
	}
	return res, nil
}

// correspond runs the cases through the model and reports every disagreement.
func (c *Ctx) correspond(s *SuiteStat, cases []corrCase) {
	if c.driver == "" {
		c.note("suite %s: correspondence skipped (no driver)", s.Name)
		return
	}
	lines := make([]string, len(cases))
	for i, cs := range cases {
		lines[i] = cs.line
	}
	res, err := c.runDriver(lines)
	if err != nil {
		c.violate(Violation{Suite: s.Name, Kind: "correspondence", Class: "driver-failure", Desc: err.Error()})
		return
	}
	for i, cs := range cases {
		s.add(cs.line, cs.nontr, cs.tags...)
		if res[i] != cs.goRes {
			s.Dist["disagree"]++
			c.violate(Violation{Suite: s.Name, Kind: "correspondence", Index: i, Class: "model-vs-impl",
				Desc:  "Lean model and Go implementation disagree",
				Input: cs.line, Expected: "model: " + clip(res[i]), Actual: "impl: " + clip(cs.goRes)})
		}
	}
}

func clip(s string) string {
	if len(s) > 2000 {
		return s[:2000] + "..."
	}
	return s
}
