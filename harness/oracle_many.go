package main

// Many calls on one object: whatever counts calls (a sequence number, a use counter, a refill threshold) wraps or
// trips at some point; the call numbers around 2^8 and 2^16 are checked against the reference, the calls in between
// are made and spot-checked.

import (
	"bytes"
	"fmt"

	"github.com/free5gc/ike/eap"
	"github.com/free5gc/ike/message"
)

func manyCallsChecked(i int) bool {
	switch {
	case i < 4, i >= 250 && i <= 260, i >= 65530 && i <= 65540:
		return true
	}
	return i%4099 == 0
}

func manyCallsN(c *Ctx) int { return c.n(65545, 70000) }

// C10: Encrypt on one object
func (c *Ctx) c10ManyCalls(g *Gen) {
	s := c.suite("many-calls-one-object", "oracle",
		fmt.Sprintf("%d Encrypt calls on ONE cipher object per key size (real random source): calls 0..3, 250..260, 65530..65540 and every 4099th are decrypted by the textbook AES-CBC reference and by the object itself; the IVs of the checked calls are pairwise distinct; non-trivial = every checked call; distinct by (key size, call)", manyCallsN(c)))
	for e := 0; e < 3; e++ {
		key := g.keyBytesRandom(refEncrKeyLen[e])
		obj, r := newCipher(e, key)
		if obj == nil {
			c.violate(Violation{Suite: s.Name, Kind: "property", Class: "newcrypto-fails", Desc: "NewCrypto failed for a key of the negotiated size", Input: fmt.Sprintf("newcrypto %d %s", e, hx(key)), Expected: "ok", Actual: r.String()})
			continue
		}
		pt := g.keyBytesRandom(5)
		seen := map[string]int{}
		for i := 0; i < manyCallsN(c); i++ {
			ct, err := obj.Encrypt(pt)
			if !manyCallsChecked(i) && err == nil {
				continue
			}
			s.add(fmt.Sprintf("many-encrypt keysize=%d call=%d", len(key), i), true, fmt.Sprintf("keysize:%d", len(key)))
			bad := ""
			switch {
			case err != nil:
				bad = "Encrypt failed: " + err.Error()
			case len(ct) != 32:
				bad = fmt.Sprintf("ciphertext of %d octets for a 5-octet plaintext", len(ct))
			default:
				if p := refCBCDecrypt(key, ct[:16], ct[16:]); !bytes.Equal(p[:5], pt) || p[15] != 10 {
					bad = "textbook AES-CBC decryption under the leading IV is not plaintext | padding | pad length"
				} else if d := cbcDec(obj, ct); d.String() != "ok "+hx(pt) {
					bad = "the object does not decrypt its own output: " + d.String()
				} else if prev, ok := seen[string(ct[:16])]; ok {
					bad = fmt.Sprintf("IV of call %d repeats the IV of call %d", i, prev)
				}
				seen[string(ct[:16])] = i
			}
			if bad != "" {
				c.violate(Violation{Suite: s.Name, Kind: "property", Index: i, Class: "many-calls:encrypt",
					Desc:  fmt.Sprintf("Encrypt call number %d on one object (key size %d): %s (replay: re-run of the suite with this seed)", i, len(key), bad),
					Input: "", Expected: "C10 laws at every call", Actual: hx(ct)})
				break
			}
		}
	}
}

// C17: protect by one role on one SA object, checked by a fresh peer; Child SA derivations on the same object
func (c *Ctx) c17ManyCalls(g *Gen) {
	s := c.suite("many-calls-one-sa", "oracle",
		fmt.Sprintf("%d EncodeEncrypt calls (small messages, one role) and as many Child SA derivations on ONE IKESAKey for two suites: calls 0..3, 250..260, 65530..65540 and every 4099th are unprotected by a freshly built peer / compared with the stdlib prf+ reference; non-trivial = every checked call", manyCallsN(c)))
	for si, st := range []suite{{0, 2, 2}, {2, 0, 1}} {
		k := g.saKeys(st)
		sa := newSA(k)
		role := message.Role(si == 0)
		sx := L(A("msg"), g.header(), L(L(A("NONCE"), X(g.keyBytesRandom(7)))))
		want := "ok " + renderMsg(buildMsg(sx)).String()
		nonce := g.keyBytesRandom(16)
		for i := 0; i < manyCallsN(c); i++ {
			m := buildMsg(sx)
			b, err := ikeEncodeEncrypt(m, sa, role)
			ck := kdChild(g, 0, -1)
			cerr := ck.GenerateKeyForChildSA(sa, nonce)
			if !manyCallsChecked(i) && err == nil && cerr == nil {
				continue
			}
			s.add(fmt.Sprintf("many-protect suite=%s call=%d", st.String(), i), true, "suite:"+st.String())
			bad := ""
			if err != nil {
				bad = "EncodeEncrypt failed: " + err.Error()
			} else if r := unprotect(newSA(k), b, !role, i%2 == 0); r.String() != want {
				bad = "a fresh peer does not accept the message: " + clip(r.String())
			} else if cerr != nil {
				bad = "GenerateKeyForChildSA failed: " + cerr.Error()
			} else if got, ref := kdChildStr(ck), kdRefChild(st.p, k.d, nonce, 0, -1); got != ref {
				bad = "Child SA keys differ from the prf+ reference: " + got
			}
			if bad != "" {
				c.violate(Violation{Suite: s.Name, Kind: "property", Index: i, Class: "many-calls:sa",
					Desc:  fmt.Sprintf("operation number %d on one IKESAKey (suite %s): %s (replay: re-run of the suite with this seed)", i, st.String(), bad),
					Input: "", Expected: "as on a fresh SA object", Actual: bad})
				break
			}
		}
	}
}

// C16: PRF' calls in one process
func (c *Ctx) c16ManyCalls(g *Gen) {
	s := c.suite("many-calls", "oracle",
		fmt.Sprintf("%d EapAkaPrimePRF calls in one process with changing keys and identities: calls 0..3, 250..260, 65530..65540 and every 4099th are compared with the reference; non-trivial = every checked call", manyCallsN(c)))
	ik, ck := g.keyBytesRandom(16), g.keyBytesRandom(16)
	for i := 0; i < manyCallsN(c); i++ {
		ik[i%16]++
		ck[(i/3)%16] ^= byte(i)
		id := fmt.Sprintf("0%015d@nai.epc.mnc001.mcc001.3gppnetwork.org", i%997)
		ke, ka, kr, msk, emsk, err := eap.EapAkaPrimePRF(ik, ck, id)
		if !manyCallsChecked(i) && err == nil {
			continue
		}
		s.add(fmt.Sprintf("many-akaprf call=%d", i), true)
		mk := kdPrfPrime(append(append([]byte{}, ik...), ck...), append([]byte("EAP-AKA'"), id...), 208)
		if err != nil || !bytes.Equal(bytes.Join([][]byte{ke, ka, kr, msk, emsk}, nil), mk) {
			c.violate(Violation{Suite: s.Name, Kind: "property", Index: i, Class: "many-calls:aka-prf",
				Desc:  fmt.Sprintf("EapAkaPrimePRF call number %d of the process differs from the RFC 5448 key hierarchy (replay: re-run of the suite with this seed)", i),
				Input: fmt.Sprintf("akaprf %s %s %s", hx(ik), hx(ck), hx([]byte(id))), Expected: hx(mk), Actual: fmt.Sprint(err)})
			break
		}
	}
}

// C14 / C20: one unmodified object encoded many times
func (c *Ctx) c14ManyCalls(g *Gen) {
	s := c.suite("many-marshal-calls", "oracle",
		fmt.Sprintf("one EAP-AKA' packet object (all attribute kinds set) marshalled %d times: encodings 0..3, 250..260, 65530..65540 and every 4099th equal the reference encoding; non-trivial = every checked call", manyCallsN(c)))
	td := L(A("AKA"), N(1), L(A("SET"), N(1), X(g.keyBytesRandom(16))), L(A("SET"), N(2), X(g.keyBytesRandom(16))), L(A("SET"), N(3), X(g.keyBytesRandom(7))),
		L(A("SET"), N(11), X(g.keyBytesRandom(16))), L(A("SET"), N(23), X(g.keyBytesRandom(33))), L(A("SET"), N(24), X([]byte{0, 1})), L(A("SET"), N(134), X(g.keyBytesRandom(20))))
	sx := L(A("EAP"), N(1), N(7), td)
	e, err := buildEAP(sx)
	if err != nil {
		return
	}
	want := refEapBytes(sx)
	for i := 0; i < manyCallsN(c); i++ {
		b, err := e.Marshal()
		if !manyCallsChecked(i) && err == nil {
			continue
		}
		s.add(fmt.Sprintf("many-marshal call=%d", i), true)
		if err != nil || !bytes.Equal(b, want) {
			c.violate(Violation{Suite: s.Name, Kind: "property", Index: i, Class: "many-calls:marshal",
				Desc:  fmt.Sprintf("encoding number %d of one unmodified EAP-AKA' packet object differs from the reference encoding (replay: re-run of the suite with this seed)", i),
				Input: "enc eap " + sx.String(), Expected: hx(want), Actual: hx(b) + fmt.Sprint(err)})
			break
		}
	}
}

func (c *Ctx) c20ManyCalls(g *Gen) {
	s := c.suite("many-encode-calls", "oracle",
		fmt.Sprintf("one message (SA, KE, Nonce, Notify, TSi, CP, EAP-AKA') encoded %d times: encodings 0..3, 250..260, 65530..65540 and every 4099th are byte-identical to the first and the message is unchanged; non-trivial = every checked call", manyCallsN(c)))
	var sx *Sx
	for tries := 0; ; {
		retryCap(&tries, "message with 7 payload kinds")
		ps := L()
		for _, k := range []string{"SA", "KE", "NONCE", "N", "TSi", "CP", "EAP"} {
			ps.List = append(ps.List, g.payload(k, false))
		}
		sx = L(A("msg"), g.header(), ps)
		if len(sx.String()) < 6000 {
			break
		}
	}
	m := buildMsg(sx)
	before := renderMsg(m).String()
	var first []byte
	for i := 0; i < manyCallsN(c); i++ {
		b, err := m.Encode()
		if i == 0 && err != nil {
			return
		}
		if i == 0 {
			first = append([]byte{}, b...)
		}
		if !manyCallsChecked(i) && err == nil {
			continue
		}
		s.add(fmt.Sprintf("many-encode call=%d", i), true)
		if err != nil || !bytes.Equal(b, first) || renderMsg(m).String() != before {
			c.violate(Violation{Suite: s.Name, Kind: "property", Index: i, Class: "many-calls:encode",
				Desc:  fmt.Sprintf("encoding number %d of one unmodified message differs from the first encoding, or the message changed (replay: re-run of the suite with this seed)", i),
				Input: "enc msg " + sx.String(), Expected: hx(first), Actual: hx(b) + fmt.Sprint(err)})
			break
		}
	}
}
