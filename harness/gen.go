package main

// Generators.  Every random choice derives from one *rand.Rand seeded from
// VERIF_SEED, so a case is reproduced by (seed, suite, index).

import (
	"encoding/json"
	"math/rand"
	"os"
)

type Gen struct {
	r *rand.Rand
}

// dictionary harvested from the literals of the current source by tools/extract (auto-dictionary): magic
// numbers and strings the code compares against become likely generator outputs
var dictInts []uint64
var dictStrs []string

// literals of the current source that the baseline dictionary (pinned tree, committed) does not contain:
// whatever a change of the code newly compares against is drawn with high probability
var newInts []uint64
var newStrs []string

type dictFile struct {
	Ints    []uint64 `json:"ints"`
	Strings []string `json:"strings"`
}

func loadDict(path, basePath string) {
	var d, b dictFile
	if data, err := os.ReadFile(path); err != nil || json.Unmarshal(data, &d) != nil {
		return
	}
	dictInts, dictStrs = d.Ints, d.Strings
	if data, err := os.ReadFile(basePath); err != nil || json.Unmarshal(data, &b) != nil {
		return
	}
	bi, bs := map[uint64]bool{}, map[string]bool{}
	for _, v := range b.Ints {
		bi[v] = true
	}
	for _, v := range b.Strings {
		bs[v] = true
	}
	for _, v := range d.Ints {
		if !bi[v] {
			newInts = append(newInts, v, v-1, v+1) // and the neighbours (off-by-one of a new limit)
		}
	}
	for _, v := range d.Strings {
		if !bs[v] {
			newStrs = append(newStrs, v)
		}
	}
}

// a dictionary integer reduced to `bits` bits; ok=false when there is no dictionary
func (g *Gen) dictInt(bits uint) (uint64, bool) {
	if len(dictInts) == 0 {
		return 0, false
	}
	v := dictInts[g.r.Intn(len(dictInts))]
	if len(newInts) > 0 && g.chance(0.6) {
		v = newInts[g.r.Intn(len(newInts))]
	}
	if bits < 64 {
		v &= (1 << bits) - 1
	}
	return v, true
}

// an integer whose octets are dictionary octets (magic values in the middle of a wider field)
func (g *Gen) dictComposite(octets int) (uint64, bool) {
	if len(dictInts) == 0 {
		return 0, false
	}
	var v uint64
	for i := 0; i < octets; i++ {
		b := dictInts[g.r.Intn(len(dictInts))] & 0xff
		if g.chance(0.5) {
			b = 0
		}
		v = v<<8 | b
	}
	return v, true
}

func NewGen(seed int64) *Gen { return &Gen{r: rand.New(rand.NewSource(seed))} }

// wire pool (splicing): encodings the harness has produced or fed to the library so far; octet strings and
// integer fields are now and then cut out of them, so that field values which look like wire structure
// (an attribute header inside an attribute value, header octets inside an SPI or Message ID) are generated
var wirePool [][]byte
var wirePoolN int

func poolAdd(b []byte) {
	if len(b) < 4 || len(b) > 8192 {
		return
	}
	c := append([]byte{}, b...)
	if len(wirePool) < 256 {
		wirePool = append(wirePool, c)
	} else {
		wirePool[wirePoolN%256] = c
	}
	wirePoolN++
}

func poolAddHex(s string) {
	if len(s) > 1 && s[0] == 'x' {
		poolAdd(unhx(s))
	}
}

// n octets cut out of a pooled encoding at a random offset (wrapping around)
func (g *Gen) poolFrag(n int) ([]byte, bool) {
	if len(wirePool) == 0 || n == 0 {
		return nil, false
	}
	e := wirePool[g.r.Intn(len(wirePool))]
	off := g.r.Intn(len(e))
	if g.chance(0.5) {
		off = off &^ 3
	}
	out := make([]byte, n)
	for i := range out {
		out[i] = e[(off+i)%len(e)]
	}
	return out, true
}

func (g *Gen) poolInt(octets int) (uint64, bool) {
	f, ok := g.poolFrag(octets)
	if !ok {
		return 0, false
	}
	var v uint64
	for _, b := range f {
		v = v<<8 | uint64(b)
	}
	return v, true
}

func (g *Gen) intn(n int) int        { return g.r.Intn(n) }
func (g *Gen) chance(p float64) bool { return g.r.Float64() < p }

func (g *Gen) pick(xs ...int) int { return xs[g.r.Intn(len(xs))] }

// size biased to small values and to the boundaries the decoders are sensitive to
func (g *Gen) size(max int) int {
	var n int
	if len(dictInts) > 0 && g.r.Intn(6) == 0 { // lengths the source mentions (and, preferably, newly mentions)
		if v, ok := g.dictInt(17); ok && int(v) <= max {
			return int(v)
		}
	}
	switch g.r.Intn(20) {
	case 0:
		n = 0
	case 1, 2, 3, 4, 5, 6, 7, 8:
		n = 1 + g.r.Intn(24)
	case 9, 10, 11:
		n = g.pick(1, 3, 4, 5, 7, 8, 12, 15, 16, 17, 20, 31, 32, 33, 40, 63, 64, 65)
	case 12, 13:
		n = g.pick(127, 128, 129, 240, 243, 244, 247, 248, 249, 250, 251, 252, 253, 254, 255, 256, 257)
	case 14, 15:
		n = g.r.Intn(600)
	case 16:
		n = g.r.Intn(5000)
	case 17:
		n = max - g.r.Intn(5)
	default:
		n = 1 + g.r.Intn(64)
	}
	if n > max {
		n = max
	}
	if n < 0 {
		n = 0
	}
	return n
}

func (g *Gen) bytes(n int) []byte {
	b := make([]byte, n)
	if len(dictStrs) > 0 && n > 0 && g.r.Intn(12) == 0 { // dictionary string as prefix (and sometimes suffix)
		g.r.Read(b)
		pre := dictStrs[g.r.Intn(len(dictStrs))]
		if len(newStrs) > 0 && g.chance(0.7) {
			pre = newStrs[g.r.Intn(len(newStrs))]
		}
		copy(b, pre)
		if g.chance(0.3) {
			sfx := dictStrs[g.r.Intn(len(dictStrs))]
			if len(sfx) <= n {
				copy(b[n-len(sfx):], sfx)
			}
		}
		return b
	}
	if n >= 3 && g.r.Intn(9) == 0 {
		// octets that describe their own length, as the envelopes and TLVs this library carries inside opaque fields do
		// (TS 24.502 NAS-over-TCP: 16-bit length + PDU; EAP: code, id, 16-bit length; generic TLV): the length of the
		// rest in 1 / 2 / 4 octets (counting itself or not), then a byte from the dictionary of the source, then noise
		g.r.Read(b)
		w := []int{1, 2, 2, 2, 4}[g.r.Intn(5)]
		if w >= n {
			w = 1
		}
		off := 0
		if g.chance(0.25) && n > w+2 {
			off = 1 + g.r.Intn(2) // behind a tag octet or two
		}
		val := n - off - w
		if g.chance(0.3) {
			val = n - off // the field counts itself
		}
		for i := 0; i < w; i++ {
			b[off+i] = byte(val >> (8 * uint(w-1-i)))
		}
		if off+w < n {
			if v, ok := g.dictInt(8); ok {
				b[off+w] = byte(v)
			}
		}
		return b
	}
	if n >= 4 && g.r.Intn(10) == 0 { // a piece of an earlier encoding somewhere inside
		if f, ok := g.poolFrag(4 + g.r.Intn(n-3)); ok {
			if g.chance(0.5) {
				g.r.Read(b)
			}
			copy(b[g.r.Intn(n-len(f)+1):], f)
			return b
		}
	}
	switch g.r.Intn(8) {
	case 0:
		// all zero
	case 1:
		for i := range b {
			b[i] = 0xff
		}
	default:
		g.r.Read(b)
	}
	return b
}

func (g *Gen) bytesMin(min, max int) []byte {
	n := g.size(max)
	if n < min {
		n = min
	}
	return g.bytes(n)
}

func (g *Gen) u8() uint64 {
	if g.r.Intn(4) == 0 {
		if v, ok := g.dictInt(8); ok {
			return v
		}
	}
	switch g.r.Intn(6) {
	case 0:
		return uint64(g.pick(0, 1, 2, 3, 127, 128, 254, 255))
	default:
		return uint64(g.r.Intn(256))
	}
}

func (g *Gen) u16() uint64 {
	if g.r.Intn(4) == 0 {
		if v, ok := g.dictInt(16); ok {
			return v
		}
	}
	switch g.r.Intn(6) {
	case 0:
		return uint64(g.pick(0, 1, 14, 127, 128, 142, 255, 256, 270, 300, 32767, 32768, 0x8001, 65535))
	case 1:
		return uint64(g.r.Intn(256))
	default:
		return uint64(g.r.Intn(65536))
	}
}

func (g *Gen) u15() uint64 {
	if g.r.Intn(4) == 0 {
		if v, ok := g.dictInt(15); ok {
			return v
		}
	}
	switch g.r.Intn(5) {
	case 0:
		return uint64(g.pick(0, 1, 14, 127, 128, 142, 255, 256, 270, 300, 16384, 32767))
	default:
		return uint64(g.r.Intn(32768))
	}
}

func (g *Gen) u32() uint64 {
	switch g.r.Intn(8) {
	case 0:
		if v, ok := g.dictInt(32); ok {
			return v
		}
	case 1:
		if v, ok := g.dictComposite(4); ok {
			return v
		}
	case 2:
		if v, ok := g.poolInt(4); ok {
			return v
		}
	}
	switch g.r.Intn(6) {
	case 0:
		return uint64(g.pick(0, 1, 255, 256, 65535, 65536, 0x7fffffff, 0x80000000, 0xffffffff))
	default:
		return uint64(g.r.Uint32())
	}
}

func (g *Gen) u64() uint64 {
	switch g.r.Intn(8) {
	case 0:
		if v, ok := g.dictInt(64); ok {
			return v
		}
	case 1:
		if v, ok := g.dictComposite(8); ok {
			return v
		}
	case 2:
		if v, ok := g.poolInt(8); ok {
			if g.chance(0.5) {
				v >>= 32 // the low half only (a short SPI)
			}
			return v
		}
	}
	switch g.r.Intn(6) {
	case 0:
		return []uint64{0, 1, 0xff, 0xffffffff, 0x100000000, 0x7fffffffffffffff, 0x8000000000000000, 0xffffffffffffffff}[g.r.Intn(8)]
	default:
		return g.r.Uint64()
	}
}

// ---------------------------------------------------------------------------
// encodable-domain values (input form)

func (g *Gen) transform(ttype int) *Sx {
	id := g.u16()
	switch g.r.Intn(3) {
	case 0:
		return L(A("T"), N(uint64(ttype)), N(id), A("0"), N(0), N(0), N(0), X(nil))
	case 1: // TV
		return L(A("T"), N(uint64(ttype)), N(id), A("1"), N(1), N(g.u15()), N(g.u16()), X(nil))
	default: // TLV, non-empty value
		if g.chance(0.3) { // an attribute type the source knows, carried as TLV with a very short value
			at, _ := g.dictInt(8)
			return L(A("T"), N(uint64(ttype)), N(id), A("1"), N(0), N(at&0x7f), N(0), X(g.bytes(1+g.r.Intn(3))))
		}
		return L(A("T"), N(uint64(ttype)), N(id), A("1"), N(0), N(g.u15()), N(0), X(g.bytesMin(1, 300)))
	}
}

func (g *Gen) proposal() *Sx {
	var spi []byte
	if g.chance(0.6) {
		spi = g.bytes(g.pick(0, 0, 4, 8, 8, 1, 16, 247, 248, 249, 251, 252, 255, g.r.Intn(256)))
	}
	cont := []*Sx{L(), L(), L(), L(), L()}
	n := 1 + g.r.Intn(6)
	if g.chance(0.03) {
		n = 255
	}
	for i := 0; i < n; i++ {
		tt := 1 + g.r.Intn(5)
		cont[tt-1].List = append(cont[tt-1].List, g.transform(tt))
	}
	return L(A("P"), N(g.u8()), N(g.u8()), X(spi), cont[0], cont[1], cont[2], cont[3], cont[4])
}

func (g *Gen) tsList() *Sx {
	out := L()
	n := 1 + g.r.Intn(4)
	if g.chance(0.03) {
		n = 255
	}
	for i := 0; i < n; i++ {
		if g.chance(0.5) {
			out.List = append(out.List, L(A("TS"), N(7), N(g.u8()), N(g.u16()), N(g.u16()), X(g.bytes(4)), X(g.bytes(4))))
		} else {
			out.List = append(out.List, L(A("TS"), N(8), N(g.u8()), N(g.u16()), N(g.u16()), X(g.bytes(16)), X(g.bytes(16))))
		}
	}
	return out
}

// AKA' attribute SETs the setter accepts; CHECKCODE restricted to the sizes C14 names.
func (g *Gen) akaSets() []*Sx {
	var out []*Sx
	types := []int{1, 2, 3, 11, 24, 23, 134}
	g.r.Shuffle(len(types), func(i, j int) { types[i], types[j] = types[j], types[i] })
	k := g.r.Intn(len(types) + 1)
	for _, t := range types[:k] {
		switch t {
		case 1, 2, 11:
			out = append(out, L(A("SET"), N(uint64(t)), X(g.bytes(16))))
		case 3:
			out = append(out, L(A("SET"), N(3), X(g.bytes(4+g.r.Intn(13)))))
		case 24:
			out = append(out, L(A("SET"), N(24), X(g.bytes(2))))
		case 23:
			n := g.pick(0, 1, 2, 3, 4, 5, 11, 32, 100, 247, 248, 249, 250, 251, 252, 253, 255, 256, 299, 300, g.r.Intn(301))
			out = append(out, L(A("SET"), N(23), X(g.bytes(n))))
		case 134:
			out = append(out, L(A("SET"), N(134), X(g.bytes(g.pick(0, 20, 32)))))
		}
	}
	if g.chance(0.1) && len(out) > 0 { // overwrite one attribute: later SET wins
		out = append(out, out[g.r.Intn(len(out))])
	}
	return out
}

func (g *Gen) eapTypeData() *Sx {
	switch g.r.Intn(6) {
	case 0:
		return L(A("ID"), X(g.bytesMin(1, 2000)))
	case 1:
		return L(A("NOTIF"), X(g.bytesMin(1, 2000)))
	case 2:
		return L(A("NAK"), X(g.bytesMin(1, 300)))
	case 3:
		vid := uint64(g.r.Intn(1 << 24))
		vt := g.u32()
		if g.chance(0.5) {
			vid, vt = 10415, 3
			if g.chance(0.6) {
				return L(A("EXP"), N(vid), N(vt), X(g.eap5gData()))
			}
		}
		return L(A("EXP"), N(vid), N(vt), X(g.bytes(g.size(3000))))
	default:
		s := L(A("AKA"), N(uint64(g.pick(1, 2, 4, 5, 12, 13, 14, g.r.Intn(256)))))
		s.List = append(s.List, g.akaSets()...)
		return s
	}
}

// vendor data shaped like the EAP-5G messages of TS 24.502 9.3.2 (what the library's users put there):
// message id, spare, [AN-parameters length, AN parameters, NAS-PDU length, NAS-PDU], and now and then
// octets behind it, a length that does not fit, or an extension
func (g *Gen) eap5gData() []byte {
	id := byte(g.pick(1, 2, 2, 2, 3, 4))
	out := []byte{id, byte(g.pick(0, 0, 0, g.r.Intn(256)))}
	if id == 1 || id == 3 || id == 4 {
		if g.chance(0.7) {
			return out
		}
	}
	an := g.bytes(g.size(64))
	if g.chance(0.5) { // AN parameters as type/length/value items
		an = nil
		for i := g.r.Intn(4); i > 0; i-- {
			v := g.bytes(g.size(20))
			an = append(an, byte(g.pick(1, 2, 3, 4, 5, 6)), byte(len(v)))
			an = append(an, v...)
		}
	}
	out = append(out, byte(len(an)>>8), byte(len(an)))
	out = append(out, an...)
	nas := g.bytes(g.size(300))
	nl := len(nas)
	if g.chance(0.1) {
		nl = g.pick(0, nl+1, nl-1, 65535)
		if nl < 0 {
			nl = 0
		}
	}
	out = append(out, byte(nl>>8), byte(nl))
	out = append(out, nas...)
	if g.chance(0.3) {
		out = append(out, g.bytes(1+g.r.Intn(8))...)
	}
	return out
}

func (g *Gen) eap() *Sx {
	if g.chance(0.2) {
		return L(A("EAP"), N(uint64(g.pick(3, 4))), N(g.u8()), A("nil"))
	}
	return L(A("EAP"), N(uint64(g.pick(1, 2))), N(g.u8()), g.eapTypeData())
}

var payloadKinds = []string{"SA", "KE", "IDi", "IDr", "CERT", "CERTREQ", "AUTH", "NONCE", "N", "D", "V", "TSi", "TSr", "CP", "EAP"}

func (g *Gen) payload(kind string, big bool) *Sx {
	max := 2000
	if big {
		max = 65000
	}
	switch kind {
	case "SA":
		ps := L()
		n := g.pick(0, 1, 1, 1, 2, 3, 4)
		if g.chance(0.01) { // counts past the 8-bit range: there is no proposal count on the wire
			n = g.pick(255, 256, 257, 300)
			for i := 0; i < n; i++ {
				ps.List = append(ps.List, L(A("P"), N(g.u8()), N(g.u8()), X(nil), L(g.transform(1)), L(), L(), L(), L()))
			}
			return L(A("SA"), ps)
		}
		for i := 0; i < n; i++ {
			ps.List = append(ps.List, g.proposal())
		}
		return L(A("SA"), ps)
	case "KE":
		if g.chance(0.4) { // a group the registry knows with a value of about the modulus size
			grp := g.pick(2, 2, 2, 14, 14, 14, 1, 5, 15, 16, 17, 18, 19, 20, 21, 31)
			ml := map[int]int{1: 96, 2: 128, 5: 192, 14: 256, 15: 384, 16: 512, 17: 768, 18: 1024, 19: 64, 20: 96, 21: 132, 31: 32}[grp]
			n := ml + g.pick(0, 0, 0, -1, -1, 1, -2, 2)
			v := g.bytes(n)
			if g.chance(0.3) {
				v[0] = 0
			}
			return L(A("KE"), N(uint64(grp)), X(v))
		}
		return L(A("KE"), N(g.u16()), X(g.bytesMin(1, max)))
	case "IDi", "IDr":
		return L(A(kind), N(g.u8()), X(g.bytesMin(1, max)))
	case "CERT", "CERTREQ":
		return L(A(kind), N(g.u8()), X(g.bytesMin(1, max)))
	case "AUTH":
		return L(A("AUTH"), N(g.u8()), X(g.bytesMin(1, max)))
	case "NONCE":
		return L(A("NONCE"), X(g.bytes(g.size(max))))
	case "N":
		spi := g.bytes(g.pick(0, 0, 0, 4, 8, 1, 16, 250, 251, 252, 253, 255, g.r.Intn(256)))
		return L(A("N"), N(g.u8()), N(g.u16()), X(spi), X(g.bytes(g.size(max))))
	case "D":
		if g.chance(0.3) {
			return L(A("D"), N(g.u8()), N(0), N(0), L())
		}
		n := g.pick(0, 1, 1, 2, 3, 4, 17, g.r.Intn(40))
		if g.chance(0.06) { // counts around the 8-bit range and at the largest that fits the 16-bit payload length
			n = g.pick(255, 256, 257, 300, 1000, 16380, 16381)
		}
		sp := L()
		for i := 0; i < n; i++ {
			sp.List = append(sp.List, N(g.u32()))
		}
		return L(A("D"), N(g.u8()), N(4), N(uint64(n)), sp)
	case "V":
		return L(A("V"), X(g.bytes(g.size(max))))
	case "TSi", "TSr":
		return L(A(kind), g.tsList())
	case "CP":
		as := L()
		n := 1 + g.r.Intn(4)
		for i := 0; i < n; i++ {
			as.List = append(as.List, L(A("A"), N(g.u15()), X(g.bytes(g.size(max/2)))))
		}
		return L(A("CP"), N(g.u8()), as)
	case "EAP":
		return g.eap()
	}
	panic("payload kind " + kind)
}

func (g *Gen) header() *Sx {
	maj, min := uint64(g.r.Intn(16)), uint64(g.r.Intn(16))
	if g.chance(0.6) {
		maj, min = 2, 0
	}
	if g.chance(0.06) {
		// SPIs and Message ID that read like a header displaced by 4 or 8 octets (what a datagram behind an RFC 3948
		// Non-ESP marker, or a header read from the wrong offset, looks like)
		h := make([]byte, 28)
		g.r.Read(h[:16])
		h[16], h[17], h[18], h[19] = byte(g.pick(33, 41, 46)), 0x20, byte(g.pick(34, 35, 36, 37)), byte(g.pick(0, 8, 32, 40))
		h[23] = byte(g.r.Intn(4))
		sh := append(make([]byte, g.pick(4, 8)), h...)
		be := func(b []byte) (v uint64) {
			for _, x := range b {
				v = v<<8 | uint64(x)
			}
			return
		}
		return L(A("H"), N(be(sh[0:8])), N(be(sh[8:16])), N(2), N(0), N(uint64(g.pick(34, 35, 36, 37))), N(uint64(g.pick(0, 8, 32, 40))), N(be(sh[20:24])))
	}
	return L(A("H"), N(g.u64()), N(g.u64()), N(maj), N(min), N(g.u8()), N(g.u8()), N(g.u32()))
}

func (g *Gen) payloadList() *Sx {
	ps := L()
	n := g.pick(0, 1, 1, 2, 2, 3, 4, 5, 8)
	if g.chance(0.02) {
		n = 20 + g.r.Intn(20)
	}
	if g.chance(0.01) { // a datagram longer than 65535 octets although every payload fits: 2..4 large payloads
		for i := g.pick(2, 2, 3, 4); i > 0; i-- {
			kind := []string{"CERT", "V", "NONCE", "AUTH", "IDi", "N"}[g.r.Intn(6)]
			l := g.pick(20000, 30000, 32768, 40000, 65000, 16384+g.r.Intn(40000))
			var p *Sx
			switch kind {
			case "V", "NONCE":
				p = L(A(kind), X(g.keyBytesRandom(l)))
			case "N":
				p = L(A("N"), N(g.u8()), N(g.u16()), X(nil), X(g.keyBytesRandom(l)))
			default:
				p = L(A(kind), N(g.u8()), X(g.keyBytesRandom(l)))
			}
			ps.List = append(ps.List, p)
		}
	}
	for i := 0; i < n; i++ {
		ps.List = append(ps.List, g.payload(payloadKinds[g.r.Intn(len(payloadKinds))], g.chance(0.02)))
	}
	return ps
}

func (g *Gen) msg() *Sx {
	return L(A("msg"), g.header(), g.payloadList())
}

// a message just OUTSIDE the encodable domain: one payload carries something the encoder has to refuse (or, where
// it does not, has to treat exactly as the model does): empty mandatory data, address length not matching the
// selector type, empty TLV value, SPI longer than its length octet, version nibble out of range
func (g *Gen) msgOutside() *Sx {
	m := g.msg()
	ps := m.List[2]
	var p *Sx
	switch g.r.Intn(12) {
	case 0:
		p = L(A("KE"), N(g.u16()), X(nil))
	case 1:
		p = L(A(g.pickS("IDi", "IDr", "CERT", "CERTREQ", "AUTH")), N(g.u8()), X(nil))
	case 2:
		n := g.pick(0, 1, 3, 5, 15, 16, 17)
		p = L(A(g.pickS("TSi", "TSr")), L(L(A("TS"), N(7), N(g.u8()), N(g.u16()), N(g.u16()), X(g.bytes(n)), X(g.bytes(g.pick(4, n))))))
	case 3:
		n := g.pick(0, 4, 15, 17, 32)
		p = L(A(g.pickS("TSi", "TSr")), L(L(A("TS"), N(8), N(g.u8()), N(g.u16()), N(g.u16()), X(g.bytes(g.pick(16, n))), X(g.bytes(n)))))
	case 4:
		p = L(A(g.pickS("TSi", "TSr")), L(L(A("TS"), N(uint64(g.pick(0, 6, 9, 255))), N(g.u8()), N(g.u16()), N(g.u16()), X(g.bytes(4)), X(g.bytes(4)))))
	case 5: // TLV attribute without a value
		t := L(A("T"), N(1), N(g.u16()), A("1"), N(0), N(g.u15()), N(0), X(nil))
		p = L(A("SA"), L(L(A("P"), N(1), N(1), X(nil), L(t), L(), L(), L(), L())))
	case 6: // SPI longer than the SPI-size octet can say
		p = L(A("SA"), L(L(A("P"), N(1), N(1), X(g.bytes(g.pick(256, 257, 300))), L(g.transform(1)), L(), L(), L(), L())))
	case 7:
		p = L(A("N"), N(g.u8()), N(g.u16()), X(g.bytes(g.pick(256, 257, 300))), X(g.bytes(g.size(40))))
	case 8:
		p = L(A("CP"), N(g.u8()), L())
	case 9:
		p = L(A(g.pickS("TSi", "TSr")), L())
	case 10:
		p = L(A("SA"), L(L(A("P"), N(1), N(1), X(nil), L(), L(), L(), L(), L())))
	default:
		m.List[1].List[3+g.r.Intn(2)] = N(uint64(g.pick(16, 17, 255)))
		return m
	}
	i := g.r.Intn(len(ps.List) + 1)
	ps.List = append(ps.List[:i], append([]*Sx{p}, ps.List[i:]...)...)
	return m
}

func (g *Gen) pickS(xs ...string) string { return xs[g.r.Intn(len(xs))] }

// ---------------------------------------------------------------------------
// malformed inputs: mutations of valid encodings

func (g *Gen) mutate(b []byte) []byte {
	out := append([]byte{}, b...)
	k := 1 + g.r.Intn(3)
	for i := 0; i < k; i++ {
		if len(out) == 0 {
			out = g.bytes(1 + g.r.Intn(8))
			continue
		}
		switch g.r.Intn(10) {
		case 0: // bit flip
			p := g.r.Intn(len(out))
			out[p] ^= 1 << uint(g.r.Intn(8))
		case 1: // byte set to boundary
			p := g.r.Intn(len(out))
			out[p] = byte(g.pick(0, 1, 3, 4, 7, 8, 0x7f, 0x80, 0xf7, 0xf8, 0xfb, 0xfc, 0xff))
		case 2: // 16-bit field +-
			if len(out) >= 2 {
				p := g.r.Intn(len(out) - 1)
				v := int(out[p])<<8 | int(out[p+1])
				v += g.pick(-4, -1, 1, 4, 8, -8, 65520, 65524, 65532)
				out[p], out[p+1] = byte(v>>8), byte(v)
			}
		case 3: // 16-bit field to wrap value
			if len(out) >= 2 {
				p := g.r.Intn(len(out) - 1)
				v := g.pick(0, 1, 3, 4, 7, 8, 9, 11, 12, 0xfff4, 0xfff8, 0xfffb, 0xfffc, 0xffff, 0x8000, 0x8001)
				out[p], out[p+1] = byte(v>>8), byte(v)
			}
		case 4: // truncate
			out = out[:g.r.Intn(len(out)+1)]
		case 5: // extend
			out = append(out, g.bytes(1+g.r.Intn(8))...)
		case 6: // delete a run
			p := g.r.Intn(len(out))
			q := p + g.r.Intn(len(out)-p+1)
			if q-p > 16 {
				q = p + 16
			}
			out = append(out[:p:p], out[q:]...)
		case 7: // duplicate a run
			p := g.r.Intn(len(out))
			q := p + g.r.Intn(len(out)-p+1)
			if q-p > 32 {
				q = p + 32
			}
			out = append(out[:q:q], append(append([]byte{}, out[p:q]...), out[q:]...)...)
		case 8: // random byte
			out[g.r.Intn(len(out))] = byte(g.r.Intn(256))
		case 9: // in the first 40 octets (headers)
			p := g.r.Intn(min(len(out), 40))
			out[p] = byte(g.r.Intn(256))
		}
	}
	return out
}

func min(a, b int) int {
	if a < b {
		return a
	}
	return b
}

func exact(b []byte) []byte { // exact-capacity copy
	out := make([]byte, len(b), len(b))
	copy(out, b)
	return out
}
