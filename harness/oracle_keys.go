package main

// C07 (IKE SA keys), C08 (Child SA keying material), C09 (MODP groups),
// C16 (EAP-AKA' PRF'): direct oracles against stdlib-only references and the
// correspondence lines of the key-derivation part of the Lean model.

import (
	"bytes"
	"crypto/hmac"
	crand "crypto/rand"
	"crypto/sha256"
	"fmt"
	"hash"
	"math/big"
	"strings"

	"github.com/free5gc/ike/eap"
	"github.com/free5gc/ike/message"
	"github.com/free5gc/ike/security"
	"github.com/free5gc/ike/security/dh"
	"github.com/free5gc/ike/security/encr"
	"github.com/free5gc/ike/security/esn"
	"github.com/free5gc/ike/security/integ"
	"github.com/free5gc/ike/security/lib"
	"github.com/free5gc/ike/security/prf"
)

func init() {
	props["C07"] = propC07
	props["C08"] = propC08
	props["C09"] = propC09
	props["C16"] = propC16
}

// ---------------------------------------------------------------------------
// independent references (standard library only)

func kdHmac(h int, key, data []byte) []byte {
	m := hmac.New(refHash(h), key)
	m.Write(data)
	return m.Sum(nil)
}

// RFC 7296 s2.13: T1 = prf(K, S|0x01), Tn = prf(K, Tn-1|S|n); first n octets
func kdPrfPlus(h int, key, seed []byte, n int) []byte {
	var out, t []byte
	for i := 1; len(out) < n; i++ {
		if i > 255 {
			panic("kdPrfPlus: prf+ is not defined beyond 255 blocks")
		}
		in := append(append(append([]byte{}, t...), seed...), byte(i))
		t = kdHmac(h, key, in)
		out = append(out, t...)
	}
	return out[:n]
}

func kdBE64(v uint64) []byte {
	b := make([]byte, 8)
	for i := 0; i < 8; i++ {
		b[i] = byte(v >> uint(56-8*i))
	}
	return b
}

// RFC 7296 s2.14
func kdRefIkeKeys(st suite, nonce, secret []byte, spiI, spiR uint64) *saKeys {
	skeyseed := kdHmac(st.p, nonce, secret)
	seed := append(append(append([]byte{}, nonce...), kdBE64(spiI)...), kdBE64(spiR)...)
	pl, il, el := refPrfLen[st.p], refIntegKeyLen[st.i], refEncrKeyLen[st.e]
	stream := kdPrfPlus(st.p, skeyseed, seed, 3*pl+2*il+2*el)
	take := func(n int) []byte {
		k := append([]byte{}, stream[:n]...)
		stream = stream[n:]
		return k
	}
	k := &saKeys{st: st}
	k.d, k.ai, k.ar, k.ei, k.er, k.pi, k.pr = take(pl), take(il), take(il), take(el), take(el), take(pl), take(pl)
	return k
}

func (k *saKeys) keysStr() string {
	return strings.Join([]string{hx(k.d), hx(k.ai), hx(k.ar), hx(k.ei), hx(k.er), hx(k.pi), hx(k.pr)}, " ")
}

func kdKeysStr(sa *security.IKESAKey) string {
	return strings.Join([]string{hx(sa.SK_d), hx(sa.SK_ai), hx(sa.SK_ar), hx(sa.SK_ei), hx(sa.SK_er), hx(sa.SK_pi), hx(sa.SK_pr)}, " ")
}

// RFC 7296 s2.17; i < 0: no integrity transform
func kdRefChild(p int, skd, nonce []byte, e, i int) string {
	el, il := refEncrKeyLen[e], 0
	if i >= 0 {
		il = refIntegKeyLen[i]
	}
	s := kdPrfPlus(p, skd, nonce, 2*(el+il))
	return strings.Join([]string{hx(s[:el]), hx(s[el : el+il]), hx(s[el+il : 2*el+il]), hx(s[2*el+il:])}, " ")
}

// lengths 1..512 biased to the boundaries of the hashes (block 64, digests 16/20/32)
func (g *Gen) kdLen() int {
	switch g.r.Intn(4) {
	case 0:
		return g.pick(1, 2, 15, 16, 17, 19, 20, 21, 31, 32, 33, 55, 56, 63, 64, 65, 119, 127, 128, 129, 255, 256, 257, 511, 512)
	case 1:
		return 1 + g.r.Intn(64)
	}
	return 1 + g.r.Intn(512)
}

func kdBlankSA(st suite, grp int) *security.IKESAKey {
	return &security.IKESAKey{
		DhInfo:    dh.StrToType(dhNames[grp]),
		EncrInfo:  encr.StrToType(encrNames[st.e]),
		IntegInfo: integ.StrToType(integNames[st.i]),
		PrfInfo:   prf.StrToType(prfNames[st.p]),
	}
}

func kdDerive(sa *security.IKESAKey, nonce, secret []byte, spiI, spiR uint64) callRes {
	n, chkN := argBufChecked("ikekeys.nonce", nonce)
	s, chkS := argBufChecked("ikekeys.secret", secret)
	r := guard(func() (string, error) {
		if err := sa.GenerateKeyForIKESA(n, s, spiI, spiR); err != nil {
			return "", err
		}
		return kdKeysStr(sa), nil
	})
	if w := chkN() + chkS(); w != "" {
		r = callRes{kind: "ok", val: "CALLER-MEMORY-WRITTEN " + w}
	}
	// the caller's buffers are the caller's: scribbling over them must not reach the SA
	for i := range n {
		n[i] = 0xA5
	}
	for i := range s {
		s[i] = 0x5A
	}
	return r
}

// kdProbeSA: the seven ready-to-use objects must behave as HMAC / AES-CBC under
// exactly the keys in want.  "" = fine.  fresh: the objects were just created
// (their write buffers must be empty).
func kdProbeSA(g *Gen, sa *security.IKESAKey, want *saKeys, fresh bool) string {
	probe := g.keyBytesRandom(1 + g.intn(150))
	hs := []struct {
		name string
		obj  hash.Hash
		h    int
		key  []byte
	}{
		{"Prf_d", sa.Prf_d, want.st.p, want.d}, {"Prf_i", sa.Prf_i, want.st.p, want.pi}, {"Prf_r", sa.Prf_r, want.st.p, want.pr},
		{"Integ_i", sa.Integ_i, want.st.i, want.ai}, {"Integ_r", sa.Integ_r, want.st.i, want.ar},
	}
	for _, x := range hs {
		if x.obj == nil {
			return x.name + " is nil"
		}
		if fresh && !bytes.Equal(x.obj.Sum(nil), kdHmac(x.h, x.key, nil)) {
			return x.name + ": Sum on the untouched object is not HMAC(key, empty)"
		}
		x.obj.Reset()
		x.obj.Write(probe)
		if !bytes.Equal(x.obj.Sum(nil), kdHmac(x.h, x.key, probe)) {
			return x.name + " is not HMAC under the RFC key"
		}
		if x.obj.Size() != len(kdHmac(x.h, nil, nil)) {
			return x.name + ": wrong Size()"
		}
	}
	if sa.Encr_i == nil {
		return "Encr_i is nil"
	}
	if sa.Encr_r == nil {
		return "Encr_r is nil"
	}
	type ciph struct {
		name     string
		key      []byte
		dec, enc func([]byte) ([]byte, error)
	}
	cs := []ciph{{"Encr_i", want.ei, sa.Encr_i.Decrypt, sa.Encr_i.Encrypt}, {"Encr_r", want.er, sa.Encr_r.Decrypt, sa.Encr_r.Encrypt}}
	for _, x := range cs {
		body := g.keyBytesRandom(g.intn(70))
		pad := (16 - (len(body)+1)%16) % 16
		pt := append(append(append([]byte{}, body...), g.keyBytesRandom(pad)...), byte(pad))
		ct := refCBCEncrypt(x.key, g.keyBytesRandom(16), pt)
		got, err := x.dec(exact(ct))
		if err != nil || !bytes.Equal(got, body) {
			return x.name + " does not decrypt what AES-CBC under the RFC key produced"
		}
		var out []byte
		withRand(g.keyBytesRandom(48), -1, func() { out, err = x.enc(exact(body)) })
		if err != nil || len(out) < 32 || len(out)%16 != 0 {
			return x.name + ".Encrypt failed"
		}
		back := refCBCDecrypt(x.key, out[:16], out[16:])
		if !bytes.HasPrefix(back, body) || int(back[len(back)-1]) != len(back)-len(body)-1 {
			return x.name + " does not encrypt under the RFC key"
		}
	}
	return ""
}

func kdProbeGuard(g *Gen, sa *security.IKESAKey, want *saKeys, fresh bool) string {
	r := guard(func() (string, error) { return kdProbeSA(g, sa, want, fresh), nil })
	if r.kind != "ok" {
		return "probing the SA objects panicked: " + r.val
	}
	return r.val
}

func kdIkeLine(op string, st suite, nonce, secret []byte, spiI, spiR uint64) string {
	return fmt.Sprintf("%s %d %d %d %s %s %d %d", op, st.e, st.i, st.p, hx(nonce), hx(secret), spiI, spiR)
}

// ---------------------------------------------------------------------------
// C07

func propC07(c *Ctx) {
	g := NewGen(c.seed)
	var corr []corrCase
	c.c07Direct(g, &corr)
	c.c07NonceLengths(g)
	c.c07PrfPlus(g, &corr)
	c.c07TwoParty(g, &corr)
	sc := c.suite("ike-keys-model-vs-impl", "correspondence",
		"lines ikekeys / ikekeys2 (second derivation on the same object) / spec-ikekeys (Lean RFC transcription) / prfplus / spec-prfplus / dhpub / dhshared taken from the oracle cases (thorough: every 4th direct case), plus empty-nonce and empty-secret calls; Go outcome string = Lean driver line; non-trivial = derivation with non-empty inputs")
	c.correspond(sc, corr)
}

type kdInputs struct {
	nonce, secret []byte
	spiI, spiR    uint64
}

func (g *Gen) kdInputs(j int) kdInputs {
	in := kdInputs{spiI: g.u64(), spiR: g.u64()}
	switch j {
	case 0:
		in.nonce, in.secret = g.bytes(1), g.bytes(1)
	case 1:
		in.nonce, in.secret = g.bytes(512), g.bytes(512)
	case 2:
		in.nonce, in.secret = g.bytes(64), g.bytes(65)
	default:
		in.nonce, in.secret = g.bytes(g.kdLen()), g.bytes(g.kdLen())
	}
	return in
}

func (c *Ctx) c07Direct(g *Gen, corr *[]corrCase) {
	s := c.suite("ike-sa-keys-vs-rfc", "oracle",
		"all 27 (encryption key size x integrity x PRF) combinations x random nonce / secret (1..512 octets, biased to 1, 512 and the hash block/digest boundaries; all-zero, all-ff and random content) x SPI pairs: GenerateKeyForIKESA on a new IKESAKey, then a 2nd derivation with other inputs and (every 3rd case) a 3rd with the first inputs on the SAME object; after each: the seven keys = slices of stdlib prf+(HMAC(Ni|Nr, g^ir), Ni|Nr|SPIi|SPIr) with RFC lengths, Prf_*/Integ_* = HMAC under those keys (untouched Sum, Reset+Write+Sum, Size), Encr_* decrypt stdlib AES-CBC and encrypt decryptably; input buffers overwritten after the call; the last 3 SA objects stay alive and are re-inspected (key fields, keyed objects) after the derivations for later SA objects and Child SAs; non-trivial = every case; distinct by (suite, inputs, derivation number)")
	per := c.n(6, 300)
	idx := 0
	// SAs derived earlier stay alive: whatever is derived later (for other SAs) must leave their keys alone
	type kept struct {
		sa   *security.IKESAKey
		want *saKeys
		line string
	}
	var retained []kept
	recheck := func(idx int) bool {
		for _, kp := range retained {
			if got := kdKeysStr(kp.sa); got != kp.want.keysStr() {
				c.violate(Violation{Suite: s.Name, Kind: "property", Index: idx, Class: "ike-keys:changed-by-later-derivation",
					Desc:  "the keys of an IKE SA derived earlier no longer equal the RFC 7296 values after key derivations for OTHER SA objects (replay: re-run of the whole suite with this seed)",
					Input: "", Expected: kp.line + " -> " + kp.want.keysStr(), Actual: clip(got)})
				return false
			}
			if msg := kdProbeGuard(g, kp.sa, kp.want, false); msg != "" {
				c.violate(Violation{Suite: s.Name, Kind: "property", Index: idx, Class: "ike-keys:objects-changed-by-later-derivation",
					Desc: "an IKE SA derived earlier, after key derivations for other SA objects: " + msg, Input: "", Expected: kp.line, Actual: msg})
				return false
			}
		}
		return true
	}
	for e := 0; e < 3; e++ {
		for i := 0; i < 3; i++ {
			for p := 0; p < 3; p++ {
				st := suite{e, i, p}
				for j := 0; j < per; j++ {
					idx++
					if len(retained) > 0 && !recheck(idx) {
						return
					}
					if len(retained) >= 3 {
						retained = retained[1:]
					}
					if idx%4 == 1 {
						libNoise(g)
					}
					sa := kdBlankSA(st, j%2)
					a, b := g.kdInputs(j), g.kdInputs(3+j)
					seq := []kdInputs{a, b}
					if j%3 == 0 {
						seq = append(seq, a)
					}
					sample := !c.thorough() || j%4 == 0
					for n, in := range seq {
						line := kdIkeLine("ikekeys", st, in.nonce, in.secret, in.spiI, in.spiR)
						setCase(line)
						s.add(fmt.Sprintf("%s #%d", line, n+1), true, "suite:"+st.String(), fmt.Sprintf("derivation:%d", n+1))
						r := kdDerive(sa, in.nonce, in.secret, in.spiI, in.spiR)
						want := kdRefIkeKeys(st, in.nonce, in.secret, in.spiI, in.spiR)
						if sample {
							switch n {
							case 0:
								*corr = append(*corr, corrCase{line: line, goRes: r.String(), nontr: true, tags: []string{"op:ikekeys"}})
							case 1:
								l2 := line2(st, a, b)
								*corr = append(*corr, corrCase{line: l2, goRes: r.String(), nontr: true, tags: []string{"op:ikekeys2"}})
								*corr = append(*corr, corrCase{line: kdIkeLine("spec-ikekeys", st, in.nonce, in.secret, in.spiI, in.spiR), goRes: r.String(), nontr: true, tags: []string{"op:spec-ikekeys"}})
							}
						}
						if r.kind != "ok" || r.val != want.keysStr() {
							c.violate(Violation{Suite: s.Name, Kind: "property", Index: idx, Class: fmt.Sprintf("ike-keys:derivation-%d:%s", n+1, r.kind),
								Desc:  fmt.Sprintf("derivation #%d on one IKESAKey object: keys differ from the RFC 7296 s2.13-2.14 computation", n+1),
								Input: line, Expected: "ok " + want.keysStr(), Actual: clip(r.String())})
							break
						}
						if msg := kdProbeGuard(g, sa, want, true); msg != "" {
							c.violate(Violation{Suite: s.Name, Kind: "property", Index: idx, Class: "ike-keys:objects",
								Desc: fmt.Sprintf("derivation #%d: %s", n+1, msg), Input: line, Expected: "objects keyed with the derived keys", Actual: msg})
							break
						}
						if n == len(seq)-1 {
							retained = append(retained, kept{sa, want, line})
							if j%2 == 0 { // a Child SA derivation from another SA in between
								k2 := g.saKeys(suite{g.intn(3), g.intn(3), g.intn(3)})
								kdChildDerive(kdChild(g, g.intn(3), g.intn(4)-1), newSA(k2), g.bytes(g.kdLen()))
							}
						}
					}
				}
			}
		}
	}
	// outside the quantified domain (model fidelity only): empty nonce / secret
	for p := 0; p < 3; p++ {
		st := suite{p, (p + 1) % 3, p}
		for _, in := range []kdInputs{{nil, []byte{1}, 1, 2}, {[]byte{1}, nil, 1, 2}, {[]byte{}, []byte{}, 0, 0}} {
			r := kdDerive(kdBlankSA(st, 0), in.nonce, in.secret, in.spiI, in.spiR)
			*corr = append(*corr, corrCase{line: kdIkeLine("ikekeys", st, in.nonce, in.secret, in.spiI, in.spiR), goRes: r.String(), tags: []string{"op:ikekeys-empty"}})
		}
	}
}

// every nonce length (see c08NonceLengths): seed of prf+ = Ni|Nr|SPIi|SPIr
func (c *Ctx) c07NonceLengths(g *Gen) {
	s := c.suite("ike-keys-every-nonce-length", "oracle",
		"per PRF (largest key set: AES-CBC-256 + HMAC-SHA2-256-128): Ni|Nr of every length 1..700 (thorough: 1..2100) with a 128- or 256-octet shared secret; seven keys = stdlib reference; non-trivial = every case; distinct by (prf, length)")
	max := c.n(700, 2100)
	for p := 0; p < 3; p++ {
		st := suite{2, 2, p}
		for n := 1; n <= max; n++ {
			in := kdInputs{nonce: g.keyBytesRandom(n), secret: g.keyBytesRandom(128 + 128*(n%2)), spiI: g.r.Uint64(), spiR: g.r.Uint64()}
			line := kdIkeLine("ikekeys", st, in.nonce, in.secret, in.spiI, in.spiR)
			setCase(line)
			s.add(fmt.Sprintf("prf=%d nonce-length=%d", p, n), true, fmt.Sprintf("prf:%d", p))
			r := kdDerive(kdBlankSA(st, n%2), in.nonce, in.secret, in.spiI, in.spiR)
			if want := kdRefIkeKeys(st, in.nonce, in.secret, in.spiI, in.spiR); r.kind != "ok" || r.val != want.keysStr() {
				c.violate(Violation{Suite: s.Name, Kind: "property", Index: n, Class: "ike-keys-nonce-length",
					Desc: fmt.Sprintf("IKE SA keys for Ni|Nr of %d octets (PRF %d) differ from the RFC 7296 s2.13-2.14 reference", n, p), Input: line, Expected: "ok " + want.keysStr(), Actual: clip(r.String())})
				break
			}
		}
	}
}

func line2(st suite, a, b kdInputs) string {
	return fmt.Sprintf("ikekeys2 %d %d %d %s %s %d %d %s %s %d %d", st.e, st.i, st.p, hx(a.nonce), hx(a.secret), a.spiI, a.spiR, hx(b.nonce), hx(b.secret), b.spiI, b.spiR)
}

func (c *Ctx) c07PrfPlus(g *Gen, corr *[]corrCase) {
	s := c.suite("prf-plus-vs-rfc", "oracle",
		"lib.PrfPlus on hash objects of the 3 PRFs: key 0..200 octets (beyond the 64-octet block: hashed keys), seed 0..600 octets, output length in {0, 1, digest-1, digest, digest+1, 2*digest, 255*digest, random <= 300}; every 3rd object has unrelated octets written before the call (Reset must precede every block); compared with the stdlib RFC recursion; non-trivial = output length > digest length (>= 2 blocks)")
	n := c.n(60, 3000)
	for p := 0; p < 3; p++ {
		dl := refPrfLen[p]
		for j := 0; j < n; j++ {
			key := g.bytes(g.pick(0, 1, dl, 63, 64, 65, g.r.Intn(201)))
			seed := g.bytes(g.pick(0, 1, 8, g.r.Intn(601)))
			ln := g.pick(0, 1, dl-1, dl, dl+1, 2*dl, 1+g.r.Intn(300), 1+g.r.Intn(300))
			if j == 0 {
				ln = 255 * dl
			}
			h := prf.StrToType(prfNames[p]).Init(exact(key))
			dirty := j%3 == 0
			if dirty {
				h.Write(g.keyBytesRandom(1 + g.intn(100)))
			}
			sd := exact(seed)
			line := fmt.Sprintf("prfplus %d %s %s %d", p, hx(key), hx(seed), ln)
			setCase(line)
			r := guard(func() (string, error) { return hx(lib.PrfPlus(h, sd, ln)), nil })
			want := "ok " + hx(kdPrfPlus(p, key, seed, ln))
			s.add(line, ln > dl, fmt.Sprintf("prf:%d", p), fmt.Sprintf("dirty:%v", dirty), fmt.Sprintf("blocks:%d", min((ln+dl-1)/dl, 9)))
			if j%2 == 0 || !c.thorough() {
				*corr = append(*corr, corrCase{line: line, goRes: r.String(), nontr: ln > dl, tags: []string{"op:prfplus"}})
				if ln > 0 {
					*corr = append(*corr, corrCase{line: "spec-" + line, goRes: r.String(), nontr: ln > dl, tags: []string{"op:spec-prfplus"}})
				}
			}
			if r.String() != want || !bytes.Equal(sd, seed) {
				c.violate(Violation{Suite: s.Name, Kind: "property", Index: j, Class: "prfplus",
					Desc: "lib.PrfPlus differs from T1 = prf(K, S|0x01), Tn = prf(K, Tn-1|S|n) (or modified its seed argument)", Input: line, Expected: clip(want), Actual: clip(r.String())})
			}
		}
	}
}

// ---------------------------------------------------------------------------
// MODP groups: constants written from the RFC formulas
//   RFC 2409 s6.2: 2^1024 - 2^960 - 1 + 2^64 * { [2^894 pi] + 129093 }
//   RFC 3526 s3  : 2^2048 - 2^1984 - 1 + 2^64 * { [2^1918 pi] + 124476 }
// (evaluated with arbitrary-precision pi; not copied from the implementation)

const kdGroup2Hex = "FFFFFFFFFFFFFFFFC90FDAA22168C234" +
	"C4C6628B80DC1CD129024E088A67CC74" +
	"020BBEA63B139B22514A08798E3404DD" +
	"EF9519B3CD3A431B302B0A6DF25F1437" +
	"4FE1356D6D51C245E485B576625E7EC6" +
	"F44C42E9A637ED6B0BFF5CB6F406B7ED" +
	"EE386BFB5A899FA5AE9F24117C4B1FE6" +
	"49286651ECE65381FFFFFFFFFFFFFFFF"

const kdGroup14Hex = "FFFFFFFFFFFFFFFFC90FDAA22168C234" +
	"C4C6628B80DC1CD129024E088A67CC74" +
	"020BBEA63B139B22514A08798E3404DD" +
	"EF9519B3CD3A431B302B0A6DF25F1437" +
	"4FE1356D6D51C245E485B576625E7EC6" +
	"F44C42E9A637ED6B0BFF5CB6F406B7ED" +
	"EE386BFB5A899FA5AE9F24117C4B1FE6" +
	"49286651ECE45B3DC2007CB8A163BF05" +
	"98DA48361C55D39A69163FA8FD24CF5F" +
	"83655D23DCA3AD961C62F356208552BB" +
	"9ED529077096966D670C354E4ABC9804" +
	"F1746C08CA18217C32905E462E36CE3B" +
	"E39E772C180E86039B2783A2EC07A28F" +
	"B5C55DF06F4C52C9DE2BCBF695581718" +
	"3995497CEA956AE515D2261898FA0510" +
	"15728E5A8AACAA68FFFFFFFFFFFFFFFF"

var kdPrimes [2]*big.Int
var kdGroupLen = [2]int{128, 256}
var kdGroupID = [2]uint16{2, 14}

func init() {
	for i, h := range []string{kdGroup2Hex, kdGroup14Hex} {
		p, ok := new(big.Int).SetString(h, 16)
		if !ok {
			panic("kd: bad prime literal")
		}
		kdPrimes[i] = p
	}
}

func bigN(v int64) *big.Int { return big.NewInt(v) }

// reference modular exponentiation: left-to-right square and multiply with Mul / Mod only
func kdModPow(base, exp, m *big.Int) *big.Int {
	r := big.NewInt(1)
	r.Mod(r, m)
	b := new(big.Int).Mod(base, m)
	for i := exp.BitLen() - 1; i >= 0; i-- {
		r.Mul(r, r)
		r.Mod(r, m)
		if exp.Bit(i) == 1 {
			r.Mul(r, b)
			r.Mod(r, m)
		}
	}
	return r
}

// big-endian, left-padded with zero octets to exactly n octets
func kdPad(v *big.Int, n int) []byte {
	b := v.Bytes()
	if len(b) > n {
		panic("kdPad: value longer than the modulus")
	}
	return append(make([]byte, n-len(b)), b...)
}

func kdRefPub(grp int, x *big.Int) []byte {
	return kdPad(kdModPow(bigN(2), x, kdPrimes[grp]), kdGroupLen[grp])
}
func kdRefShared(grp int, x, y *big.Int) []byte {
	return kdPad(kdModPow(y, x, kdPrimes[grp]), kdGroupLen[grp])
}

// octet strings the DH functions returned earlier stay referenced (as an SA holding its public value and
// shared secret does): a later call must not change them
type dhKeptT struct {
	b    []byte
	was  string
	what string
}

var dhKept []dhKeptT

func dhKeep(b []byte, what string) {
	if len(dhKept) >= 6 {
		dhKept = dhKept[1:]
	}
	dhKept = append(dhKept, dhKeptT{b, hx(b), what})
}

func dhKeptChanged() (what, was, now string) {
	for _, k := range dhKept {
		if n := hx(k.b); n != k.was {
			return k.what, k.was, n
		}
	}
	return "", "", ""
}

// the caller's number objects, reused in place from call to call
var dhArgX, dhArgY = new(big.Int), new(big.Int)

func kdGoPub(grp int, xb []byte) callRes {
	t := dh.StrToType(dhNames[grp])
	x := dhArgX.SetBytes(xb)
	return guard(func() (string, error) {
		b := t.GetPublicValue(x)
		dhKeep(b, fmt.Sprintf("dhpub %d %s", grp, hx(xb)))
		return hx(b), nil
	})
}

func kdGoShared(grp int, xb, yb []byte) callRes {
	t := dh.StrToType(dhNames[grp])
	x, y := dhArgX.SetBytes(xb), dhArgY.SetBytes(yb)
	return guard(func() (string, error) {
		b := t.GetSharedKey(x, y)
		dhKeep(b, fmt.Sprintf("dhshared %d %s %s", grp, hx(xb), hx(yb)))
		return hx(b), nil
	})
}

// what GenerateRandomNumber must return for a given octet stream: the first
// rand.Int(reader, 2^2048-1) draw that exceeds 2^128-1, asking the stdlib itself
// what rand.Int yields for these octets.  Also the number of Read calls consumed.
func kdPredictSecret(rnd []byte) (*big.Int, int) {
	r := &detReader{buf: rnd, failAt: -1}
	max := new(big.Int).Sub(new(big.Int).Lsh(bigN(1), 2048), bigN(1))
	min := new(big.Int).Sub(new(big.Int).Lsh(bigN(1), 128), bigN(1))
	for {
		n, err := crand.Int(r, max)
		if err != nil {
			panic(err)
		}
		if n.Cmp(min) > 0 {
			return n, r.reads
		}
	}
}

// random octets for the deterministic reader that cannot stall rand.Int forever
func (g *Gen) kdRandBuf(n int) []byte {
	b := g.keyBytesRandom(n)
	b[0] = byte(1 + g.intn(254))
	return b
}

// RFC 7296 transform numbers (IANA): ENCR_AES_CBC 12 + Key Length attribute 14; PRF_HMAC_MD5 1,
// PRF_HMAC_SHA1 2, PRF_HMAC_SHA2_256 5; AUTH_HMAC_MD5_96 1, AUTH_HMAC_SHA1_96 2,
// AUTH_HMAC_SHA2_256_128 12; MODP groups 2 and 14
func kdHandProposal(g *Gen, st suite, grp int) *message.Proposal {
	p := &message.Proposal{ProposalNumber: uint8(1 + g.intn(3)), ProtocolID: 1}
	if g.chance(0.5) {
		p.SPI = g.keyBytesRandom(8)
	}
	p.EncryptionAlgorithm = message.TransformContainer{{TransformType: 1, TransformID: 12, AttributePresent: true, AttributeFormat: 1, AttributeType: 14, AttributeValue: uint16(128 + 64*st.e)}}
	p.PseudorandomFunction = message.TransformContainer{{TransformType: 2, TransformID: []uint16{1, 2, 5}[st.p]}}
	p.IntegrityAlgorithm = message.TransformContainer{{TransformType: 3, TransformID: []uint16{1, 2, 12}[st.i]}}
	p.DiffieHellmanGroup = message.TransformContainer{{TransformType: 4, TransformID: kdGroupID[grp]}}
	return p
}

// a proposal after a trip through the message codec (SA payload Marshal / Unmarshal)
func kdWire(p *message.Proposal) (*message.Proposal, error) {
	b, err := (&message.SecurityAssociation{Proposals: message.ProposalContainer{p}}).Marshal()
	if err != nil {
		return nil, err
	}
	q := new(message.SecurityAssociation)
	if err = q.Unmarshal(exact(b)); err != nil {
		return nil, err
	}
	if len(q.Proposals) != 1 {
		return nil, fmt.Errorf("%d proposals decoded", len(q.Proposals))
	}
	return q.Proposals[0], nil
}

func (c *Ctx) c07TwoParty(g *Gen, corr *[]corrCase) {
	s := c.suite("two-party-ike-sa", "oracle",
		"all 27 combinations x both DH groups: proposal from IKESAKey.ToProposal (even cases) or hand-built from the IANA numbers (odd cases), sent through SA payload Marshal/Unmarshal; initiator: own exponent (random 2048-bit, small, or GenerateRandomNumber) -> GetPublicValue; responder: security.NewIKESAKey(proposal, KEi, Ni|Nr, SPIi, SPIr) under the deterministic reader; initiator: GetSharedKey + GenerateKeyForIKESA. Checks: responder public value = 2^y mod p for the exponent the stdlib's rand.Int yields on the injected octets; both sides' seven keys = reference derived from the real g^ir (own square-and-multiply, RFC prime literal); per combination one more responder run with a peer value constructed so that g^ir has 1..3 leading zero octets; objects probed on both sides; a message protected by either side is opened by the other (EncodeEncrypt/DecodeDecrypt); non-trivial = every case with SPIi != SPIr; distinct by all inputs")
	per := c.n(1, 30)
	idx := 0
	for e := 0; e < 3; e++ {
		for i := 0; i < 3; i++ {
			for p := 0; p < 3; p++ {
				for grp := 0; grp < 2; grp++ {
					for j := 0; j < per; j++ {
						idx++
						c.c07TwoPartyCase(s, g, suite{e, i, p}, grp, idx, corr)
					}
					idx++
					c.c07ForcedSharedSecret(s, g, suite{e, i, p}, grp, idx)
				}
			}
		}
	}
}

// a peer value chosen so that the shared secret g^ir the responder computes is a given t with 1..3 leading zero octets
// (the responder's exponent y is known: it comes from the injected random octets; KEi = t^(y^-1 mod p-1)): the
// prf input is g^ir as a string of the modulus length, leading zeros included (RFC 7296 s2.14)
func (c *Ctx) c07ForcedSharedSecret(s *SuiteStat, g *Gen, st suite, grp, idx int) {
	P, L := kdPrimes[grp], kdGroupLen[grp]
	pm1 := new(big.Int).Sub(P, bigN(1))
	var rnd []byte
	var y, d *big.Int
	for tries := 0; d == nil; {
		retryCap(&tries, "random stream giving an exponent invertible mod p-1")
		rnd = g.kdRandBuf(256 + g.intn(300))
		y, _ = kdPredictSecret(rnd)
		d = new(big.Int).ModInverse(y, pm1)
	}
	zeros := 1 + idx%3
	t := new(big.Int).SetBytes(g.kdRandBuf(L - zeros))
	kei := kdPad(kdModPow(t, d, P), L)
	in := g.kdInputs(3 + idx)
	caseText := fmt.Sprintf("forced-shared-secret grp=%d %s kei=%s rnd=%s", grp, kdIkeLine("ikekeys", st, in.nonce, kdPad(t, L), in.spiI, in.spiR), hx(kei), hx(rnd))
	setCase(caseText)
	s.add(caseText, true, "suite:"+st.String(), fmt.Sprintf("group:%d", kdGroupID[grp]), fmt.Sprintf("shared-secret-leading-zero-octets:%d", zeros))
	prop, err := kdWire(kdHandProposal(g, st, grp))
	if err != nil {
		return
	}
	var rsa *security.IKESAKey
	rr := guard(func() (string, error) {
		var e2 error
		withRand(rnd, -1, func() { rsa, _, e2 = security.NewIKESAKey(prop, exact(kei), exact(in.nonce), in.spiI, in.spiR) })
		if e2 != nil {
			return "", e2
		}
		return kdKeysStr(rsa), nil
	})
	if chk := new(big.Int).Exp(new(big.Int).SetBytes(kei), y, P); chk.Cmp(t) != 0 {
		panic("harness: constructed peer value does not give the chosen shared secret")
	}
	if want := kdRefIkeKeys(st, in.nonce, kdPad(t, L), in.spiI, in.spiR); rr.String() != "ok "+want.keysStr() {
		c.violate(Violation{Suite: s.Name, Kind: "property", Index: idx, Class: "two-party:keys-leading-zero-secret",
			Desc:  fmt.Sprintf("NewIKESAKey with a peer value for which g^ir has %d leading zero octet(s): the keys differ from the RFC computation over g^ir as a string of the modulus length", zeros),
			Input: caseText, Expected: "ok " + want.keysStr(), Actual: clip(rr.String())})
	}
}

func (c *Ctx) c07TwoPartyCase(s *SuiteStat, g *Gen, st suite, grp, idx int, corr *[]corrCase) {
	ini := kdBlankSA(st, grp)
	in := g.kdInputs(3 + idx)
	var xb []byte
	switch idx % 3 {
	case 0:
		xb = g.keyBytesRandom(256)
	case 1:
		xb = g.keyBytesRandom(1 + g.intn(40))
	default:
		withRand(g.kdRandBuf(300), -1, func() {
			if n, err := security.GenerateRandomNumber(); err == nil {
				xb = n.Bytes()
			}
		})
	}
	x := new(big.Int).SetBytes(xb)
	// the stream is served cyclically and rand.Int reads 256 octets per draw: it must be longer than one draw and
	// its second draw must not be small again, or GenerateRandomNumber would (rightly) never return
	rnd := g.kdRandBuf(300 + g.intn(256))
	if idx%5 == 0 { // first draw too small: the loop must draw again
		copy(rnd, make([]byte, 240))
		if rnd[256] == 0 {
			rnd[256] = 1
		}
	}
	caseText := fmt.Sprintf("two-party grp=%d %s x=%s rnd=%s", grp, kdIkeLine("ikekeys", st, in.nonce, nil, in.spiI, in.spiR), hx(xb), hx(rnd))
	setCase(caseText)
	hand := idx%2 == 1
	s.add(caseText, in.spiI != in.spiR, "suite:"+st.String(), fmt.Sprintf("group:%d", kdGroupID[grp]), fmt.Sprintf("hand-built-proposal:%v", hand))
	fail := func(class, desc, exp, act string) {
		c.violate(Violation{Suite: s.Name, Kind: "property", Index: idx, Class: "two-party:" + class, Desc: desc, Input: caseText, Expected: clip(exp), Actual: clip(act)})
	}
	var prop *message.Proposal
	var err error
	if hand {
		prop = kdHandProposal(g, st, grp)
	} else if prop, err = ini.ToProposal(); err != nil {
		fail("proposal", "ToProposal failed", "ok", err.Error())
		return
	}
	if prop, err = kdWire(prop); err != nil {
		fail("proposal", "proposal does not survive SA payload Marshal/Unmarshal", "ok", err.Error())
		return
	}
	pubI := kdGoPub(grp, xb)
	*corr = append(*corr, corrCase{line: fmt.Sprintf("dhpub %d %s", grp, hx(xb)), goRes: pubI.String(), nontr: true, tags: []string{"op:dhpub"}})
	if pubI.String() != "ok "+hx(kdRefPub(grp, x)) {
		fail("pub", "initiator public value is not 2^x mod p", "ok "+hx(kdRefPub(grp, x)), pubI.String())
		return
	}
	kei := unhx(pubI.val)
	// responder
	var rsa *security.IKESAKey
	var ker []byte
	rr := guard(func() (string, error) {
		var e2 error
		withRand(rnd, -1, func() { rsa, ker, e2 = security.NewIKESAKey(prop, exact(kei), exact(in.nonce), in.spiI, in.spiR) })
		if e2 != nil {
			return "", e2
		}
		return kdKeysStr(rsa), nil
	})
	y, _ := kdPredictSecret(rnd)
	gir := kdRefShared(grp, y, new(big.Int).SetBytes(kei))
	want := kdRefIkeKeys(st, in.nonce, gir, in.spiI, in.spiR)
	*corr = append(*corr, corrCase{line: kdIkeLine("ikekeys", st, in.nonce, gir, in.spiI, in.spiR), goRes: rr.String(), nontr: true, tags: []string{"op:ikekeys-responder"}})
	if rr.kind != "ok" {
		fail("responder:"+rr.kind, "NewIKESAKey failed on a supported proposal", "ok", rr.String())
		return
	}
	if !bytes.Equal(ker, kdRefPub(grp, y)) {
		fail("responder-pub", "responder public value is not 2^y mod p (fixed length) for the exponent drawn from the random source", hx(kdRefPub(grp, y)), hx(ker))
		return
	}
	if rr.val != want.keysStr() {
		fail("responder-keys", "keys of the SA built by NewIKESAKey differ from the RFC computation over the real g^ir", "ok "+want.keysStr(), rr.String())
		return
	}
	// initiator
	sh := kdGoShared(grp, xb, ker)
	*corr = append(*corr, corrCase{line: fmt.Sprintf("dhshared %d %s %s", grp, hx(xb), hx(ker)), goRes: sh.String(), nontr: true, tags: []string{"op:dhshared"}})
	if sh.String() != "ok "+hx(gir) {
		fail("agreement", "initiator's shared secret differs from the responder's g^ir", "ok "+hx(gir), sh.String())
		return
	}
	ri := kdDerive(ini, in.nonce, unhx(sh.val), in.spiI, in.spiR)
	if ri.kind != "ok" || ri.val != rr.val {
		fail("initiator-keys", "initiator and responder hold different keys", rr.String(), ri.String())
		return
	}
	for _, sa := range []*security.IKESAKey{ini, rsa} {
		if msg := kdProbeGuard(g, sa, want, true); msg != "" {
			fail("objects", msg, "objects keyed with the derived keys", msg)
			return
		}
	}
	// mutual usability through the message layer
	for _, sender := range []message.Role{message.Role_Initiator, message.Role_Responder} {
		sx := g.protMsg()
		m := buildMsg(sx)
		wantMsg := renderMsg(m).String()
		from, to := ini, rsa
		if sender == message.Role_Responder {
			from, to = rsa, ini
		}
		pr, _ := protect(from, m, sender, g.keyBytesRandom(32), -1)
		if pr.kind != "ok" {
			fail("protect", "EncodeEncrypt under the derived SA failed", "ok", pr.String())
			return
		}
		ur := unprotect(to, unhx(pr.val), !sender, false)
		if ur.kind != "ok" || ur.val != wantMsg {
			fail("mutual-use", "the peer cannot open a message protected under the derived SA (sender "+roleName(sender)+")", "ok "+wantMsg, ur.String())
			return
		}
	}
}

// ---------------------------------------------------------------------------
// C08

func kdChild(g *Gen, e, i int) *security.ChildSAKey {
	ck := &security.ChildSAKey{EncrKInfo: encr.StrToKType(encrNames[e]), SPI: uint32(g.u32())}
	if i >= 0 {
		ck.IntegKInfo = integ.StrToKType(integNames[i])
	}
	if en, err := esn.StrToType([]string{esn.String_ESN_ENABLE, esn.String_ESN_DISABLE}[g.intn(2)]); err == nil {
		ck.EsnInfo = en
	}
	if g.chance(0.3) {
		ck.DhInfo = dh.StrToType(dhNames[g.intn(2)])
	}
	return ck
}

func kdChildStr(ck *security.ChildSAKey) string {
	return strings.Join([]string{hx(ck.InitiatorToResponderEncryptionKey), hx(ck.InitiatorToResponderIntegrityKey),
		hx(ck.ResponderToInitiatorEncryptionKey), hx(ck.ResponderToInitiatorIntegrityKey)}, " ")
}

func kdChildDerive(ck *security.ChildSAKey, sa *security.IKESAKey, nonce []byte) callRes {
	var n []byte
	chk := func() string { return "" }
	if nonce != nil {
		n, chk = argBufChecked("childkeys.nonce", nonce)
	}
	r := guard(func() (string, error) {
		if err := ck.GenerateKeyForChildSA(sa, n); err != nil {
			return "", err
		}
		return kdChildStr(ck), nil
	})
	if w := chk(); w != "" { // arguments are read-only, including the memory behind their length
		r = callRes{kind: "ok", val: "CALLER-MEMORY-WRITTEN " + w}
	}
	return r // the nonce buffer is refilled in place by the next derivation (argBuf)
}

func kdChildLine(op string, p int, skd []byte, e, i int, nonce []byte) string {
	return fmt.Sprintf("%s %d %s %d %d %s", op, p, hx(skd), e, i, hx(nonce))
}

// the recipe of the `childkeys ... <k>` line: derivations 1..k-1 on one SA object with
// nonce|byte(j), the k-th with the nonce itself; each into a new ChildSAKey
func kdChildK(g *Gen, k *saKeys, e, i int, nonce []byte, n int) callRes {
	sa := newSA(k)
	for j := 1; j < n; j++ {
		kdChildDerive(kdChild(g, e, i), sa, append(append([]byte{}, nonce...), byte(j)))
	}
	return kdChildDerive(kdChild(g, e, i), sa, nonce)
}

func propC08(c *Ctx) {
	g := NewGen(c.seed)
	var corr []corrCase
	c.c08Direct(g, &corr)
	c.c08NonceLengths(g)
	c.c08History(g, &corr)
	c.c08SameChild(g, &corr)
	sc := c.suite("child-keys-model-vs-impl", "correspondence",
		"lines childkeys (k-th derivation on one SA object, k in 1..6), spec-childkeys (Lean RFC transcription), childkeys2 (two derivations into one ChildSAKey object) from the oracle cases; Go outcome string = Lean driver line; non-trivial = integrity transform present or nonce non-empty")
	c.correspond(sc, corr)
}

func (c *Ctx) c08Direct(g *Gen, corr *[]corrCase) {
	s := c.suite("child-sa-keys-vs-rfc", "oracle",
		"3 PRFs x 3 ESP encryption key sizes x {no integrity, MD5-96, SHA1-96, SHA2-256-128} x nonce (nil, empty, 1..512 octets): new ChildSAKey (EncrKInfo/IntegKInfo from StrToKType, any ESN, DH group or none), GenerateKeyForChildSA on an SA built around random keys (even cases) or produced by GenerateKeyForIKESA (odd cases); the four keys = consecutive slices of stdlib prf+(SK_d, Ni|Nr) in the order encr i->r, integ i->r, encr r->i, integ r->i; for transforms with integrity additionally ChildSAKey.ToProposal -> SA payload Marshal/Unmarshal -> NewChildSAKeyByProposal -> same keys; non-trivial = integrity present or nonce non-empty; distinct by (PRF, SK_d, transforms, nonce)")
	per := c.n(8, 400)
	idx := 0
	noIntegErr := 0
	for p := 0; p < 3; p++ {
		for e := 0; e < 3; e++ {
			for i := -1; i < 3; i++ {
				for j := 0; j < per; j++ {
					idx++
					st := suite{g.intn(3), g.intn(3), p}
					var nonce []byte
					switch j {
					case 0:
					case 1:
						nonce = []byte{}
					case 2:
						nonce = g.bytes(512)
					default:
						nonce = g.bytes(g.kdLen())
					}
					var sa *security.IKESAKey
					var skd []byte
					if j%2 == 0 {
						k := g.saKeys(st)
						sa, skd = newSA(k), k.d
					} else {
						sa = kdBlankSA(st, 0)
						in := g.kdInputs(9)
						if r := kdDerive(sa, in.nonce, in.secret, in.spiI, in.spiR); r.kind != "ok" {
							continue
						}
						skd = append([]byte{}, sa.SK_d...)
					}
					line := kdChildLine("childkeys", p, skd, e, i, nonce) + " 1"
					setCase(line)
					nontr := i >= 0 || len(nonce) > 0
					s.add(line, nontr, fmt.Sprintf("prf:%d", p), fmt.Sprintf("encr:%d", e), fmt.Sprintf("integ:%d", i), fmt.Sprintf("nonce-empty:%v", len(nonce) == 0))
					ck := kdChild(g, e, i)
					r := kdChildDerive(ck, sa, nonce)
					want := "ok " + kdRefChild(p, skd, nonce, e, i)
					if !c.thorough() || j%4 == 0 {
						*corr = append(*corr, corrCase{line: line, goRes: r.String(), nontr: nontr, tags: []string{"op:childkeys"}})
						*corr = append(*corr, corrCase{line: kdChildLine("spec-childkeys", p, skd, e, i, nonce), goRes: r.String(), nontr: nontr, tags: []string{"op:spec-childkeys"}})
					}
					if r.String() != want {
						c.violate(Violation{Suite: s.Name, Kind: "property", Index: idx, Class: "child-keys:" + r.kind,
							Desc: "Child SA keys differ from the slices of prf+(SK_d, Ni|Nr) (RFC 7296 s2.17)", Input: line, Expected: want, Actual: clip(r.String())})
						continue
					}
					// proposal path
					pr := guard(func() (string, error) {
						prop, err := ck.ToProposal()
						if err != nil {
							return "", err
						}
						if prop, err = kdWire(prop); err != nil {
							return "", err
						}
						ck2, err := security.NewChildSAKeyByProposal(prop)
						if err != nil {
							return "", err
						}
						if err = ck2.GenerateKeyForChildSA(sa, nonce); err != nil {
							return "", err
						}
						return kdChildStr(ck2), nil
					})
					if i < 0 {
						s.Dist["no-integrity-via-proposal:"+pr.kind]++
						if pr.kind != "ok" {
							noIntegErr++
						}
					} else if pr.String() != want {
						c.violate(Violation{Suite: s.Name, Kind: "property", Index: idx, Class: "child-keys-proposal:" + pr.kind,
							Desc: "Child SA built by NewChildSAKeyByProposal from the wire form of ToProposal derives other keys", Input: line, Expected: want, Actual: clip(pr.String())})
					}
				}
			}
		}
	}
	if noIntegErr > 0 {
		c.note("observation (not a C08 clause): NewChildSAKeyByProposal refuses a proposal without an integrity transform (%d cases: error), so the no-integrity Child SA is reachable only by filling ChildSAKey directly", noIntegErr)
	}
}

type keptChild struct {
	ck   *security.ChildSAKey
	want string
	line string
}

// every nonce length: the input of a prf+ round is T(n-1) | Ni|Nr | n, whose size crosses whatever block or buffer
// size an implementation works with at some nonce length
func (c *Ctx) c08NonceLengths(g *Gen) {
	s := c.suite("child-keys-every-nonce-length", "oracle",
		"per PRF: Ni|Nr of every length 0..700 (thorough: 0..2100), the largest KEYMAT (AES-CBC-256 + HMAC-SHA2-256-128: 128 octets = 4..8 prf+ rounds) and a second transform choice in rotation; keys = stdlib prf+ reference; non-trivial = nonce of >= 1 octet; distinct by (prf, length)")
	max := c.n(700, 2100)
	for p := 0; p < 3; p++ {
		k := g.saKeys(suite{g.intn(3), g.intn(3), p})
		for n := 0; n <= max; n++ {
			e, i := 2, 2
			if n%3 == 1 {
				e, i = g.intn(3), g.intn(4)-1
			}
			nonce := g.keyBytesRandom(n)
			line := kdChildLine("childkeys", p, k.d, e, i, nonce)
			setCase(line)
			s.add(fmt.Sprintf("prf=%d nonce-length=%d e=%d i=%d", p, n, e, i), n > 0, fmt.Sprintf("prf:%d", p))
			r := kdChildK(g, k, e, i, nonce, 1)
			if want := "ok " + kdRefChild(p, k.d, nonce, e, i); r.String() != want {
				c.violate(Violation{Suite: s.Name, Kind: "property", Index: n, Class: "child-keys-nonce-length",
					Desc: fmt.Sprintf("Child SA keys for Ni|Nr of %d octets (PRF %d) differ from the RFC 7296 s2.17 reference", n, p), Input: line, Expected: want, Actual: clip(r.String())})
				break
			}
		}
	}
}

func (c *Ctx) c08History(g *Gen, corr *[]corrCase) {
	var keptChildren []keptChild
	s := c.suite("child-derivation-history", "oracle",
		fmt.Sprintf("per PRF one long-lived IKESAKey object: %d Child SA derivations (random transform choice and nonce each) interleaved with EncodeEncrypt, DecodeDecrypt of a peer's message, DecodeDecrypt of garbage and foreign writes into Prf_d; every derivation must equal (a) the derivation on a freshly constructed copy of the SA and (b) the stdlib reference; the last 3 ChildSAKey objects are re-inspected after each later derivation; plus childkeys lines with k = 1..6 earlier derivations; non-trivial = derivation number >= 2; distinct by (history, position, inputs)", c.n(64, 1000)))
	n := c.n(64, 1000)
	prevNonceLen, prevE, prevI := 0, 0, 0
	for p := 0; p < 3; p++ {
		st := suite{g.intn(3), g.intn(3), p}
		k := g.saKeys(st)
		sa := newSA(k)
		for d := 1; d <= n; d++ {
			if d%4 == 0 {
				libNoise(g)
			}
			// other uses of the SA between derivations
			for o := g.intn(3); o > 0; o-- {
				switch g.intn(4) {
				case 0:
					protect(sa, buildMsg(g.protMsg()), message.Role(g.chance(0.5)), g.keyBytesRandom(32), -1)
				case 1:
					role := message.Role(g.chance(0.5))
					if pr, _ := protect(newSA(k), buildMsg(g.protMsg()), !role, g.keyBytesRandom(32), -1); pr.kind == "ok" {
						unprotect(sa, unhx(pr.val), role, g.chance(0.5))
					}
				case 2:
					unprotect(sa, g.bytes(g.intn(90)), message.Role(g.chance(0.5)), false)
				case 3:
					sa.Prf_d.Write(g.keyBytesRandom(1 + g.intn(80)))
				}
			}
			e, i := g.intn(3), g.intn(4)-1
			nonce := g.bytes(g.pick(0, g.kdLen(), g.kdLen()))
			if d >= 2 && g.chance(0.4) { // the same nonce length (and sometimes the same transforms) as the derivation before
				nonce = g.keyBytesRandom(prevNonceLen)
				if g.chance(0.5) {
					e, i = prevE, prevI
				}
			}
			prevNonceLen, prevE, prevI = len(nonce), e, i
			line := fmt.Sprintf("history prf=%d #%d %s", p, d, kdChildLine("childkeys", p, k.d, e, i, nonce))
			setCase(line)
			s.add(line, d >= 2, fmt.Sprintf("prf:%d", p), fmt.Sprintf("integ:%d", i), fmt.Sprintf("position:%s", kdBucket(d)))
			ck := kdChild(g, e, i)
			long := kdChildDerive(ck, sa, nonce)
			fresh := kdChildDerive(kdChild(g, e, i), newSA(k), nonce)
			want := "ok " + kdRefChild(p, k.d, nonce, e, i)
			for _, kp := range keptChildren { // Child SAs derived earlier keep their keys
				if got := "ok " + kdChildStr(kp.ck); got != kp.want {
					c.violate(Violation{Suite: s.Name, Kind: "property", Index: d, Class: "child-keys-changed-by-later-derivation",
						Desc:  "the keys of a Child SA derived earlier changed when a later Child SA was derived from the same IKE SA (replay: re-run of the whole suite with this seed)",
						Input: "", Expected: kp.line + " -> " + kp.want, Actual: clip(got)})
					return
				}
			}
			if len(keptChildren) >= 3 {
				keptChildren = keptChildren[1:]
			}
			keptChildren = append(keptChildren, keptChild{ck, want, line})
			if long.String() != fresh.String() || long.String() != want {
				c.violate(Violation{Suite: s.Name, Kind: "property", Index: d, Class: "child-history",
					Desc:  fmt.Sprintf("derivation #%d on a long-lived SA object differs from the derivation on a fresh copy / the RFC reference", d),
					Input: line, Expected: want + " (fresh: " + clip(fresh.String()) + ")", Actual: clip(long.String())})
				break
			}
		}
		// model lines: k-th derivation after k-1 others
		for kk := 1; kk <= 6; kk++ {
			for rep := 0; rep < c.n(2, 40); rep++ {
				e, i := g.intn(3), g.intn(4)-1
				nonce := g.bytes(g.pick(0, g.kdLen()))
				line := fmt.Sprintf("%s %d", kdChildLine("childkeys", p, k.d, e, i, nonce), kk)
				setCase(line)
				r := kdChildK(g, k, e, i, nonce, kk)
				s.add(line, kk >= 2, fmt.Sprintf("prf:%d", p), fmt.Sprintf("integ:%d", i), "position:"+kdBucket(kk))
				*corr = append(*corr, corrCase{line: line, goRes: r.String(), nontr: i >= 0 || len(nonce) > 0, tags: []string{fmt.Sprintf("op:childkeys-k%d", kk)}})
				if want := "ok " + kdRefChild(p, k.d, nonce, e, i); r.String() != want {
					c.violate(Violation{Suite: s.Name, Kind: "property", Index: kk, Class: "child-history",
						Desc: fmt.Sprintf("derivation #%d on one SA object differs from the RFC reference", kk), Input: line, Expected: want, Actual: clip(r.String())})
				}
			}
		}
	}
}

func kdBucket(d int) string {
	switch {
	case d == 1:
		return "1"
	case d <= 10:
		return "2-10"
	case d <= 100:
		return "11-100"
	}
	return "101+"
}

// A second GenerateKeyForChildSA into the SAME ChildSAKey object.  The property
// speaks of one ChildSAKey per derivation, so this is recorded, not judged: the
// fields are classified as "appended" (old|new), "overwritten" (new) or "other";
// only "other" is a violation (the keys would then be no function of the inputs).
func (c *Ctx) c08SameChild(g *Gen, corr *[]corrCase) {
	s := c.suite("same-childsakey-twice", "oracle",
		"3 PRFs x 3 encryption sizes x 4 integrity choices: two GenerateKeyForChildSA calls with different nonces into ONE ChildSAKey object; outcome classified appended / overwritten / other against the stdlib reference (only 'other' is a violation; the property quantifies over one ChildSAKey per derivation); non-trivial = every case")
	seen := map[string]int{}
	for p := 0; p < 3; p++ {
		for e := 0; e < 3; e++ {
			for i := -1; i < 3; i++ {
				for j := 0; j < c.n(1, 20); j++ {
					k := g.saKeys(suite{e, (i + 3) % 3, p})
					n1, n2 := g.bytes(g.kdLen()), g.bytes(g.kdLen())
					sa := newSA(k)
					ck := kdChild(g, e, i)
					r1 := kdChildDerive(ck, sa, n1)
					r2 := kdChildDerive(ck, sa, n2)
					line := fmt.Sprintf("%s %s", kdChildLine("childkeys2", p, k.d, e, i, n1), hx(n2))
					a, b := strings.Fields(kdRefChild(p, k.d, n1, e, i)), strings.Fields(kdRefChild(p, k.d, n2, e, i))
					var app []string
					for x := range a {
						app = append(app, a[x]+b[x][1:])
					}
					class := "other"
					switch {
					case r1.kind == "ok" && r2.String() == "ok "+strings.Join(app, " "):
						class = "appended"
					case r1.kind == "ok" && r2.String() == "ok "+strings.Join(b, " "):
						class = "overwritten"
					}
					seen[class]++
					s.add(line, true, "second-call:"+class, fmt.Sprintf("integ:%d", i))
					*corr = append(*corr, corrCase{line: line, goRes: r2.String(), nontr: true, tags: []string{"op:childkeys2"}})
					if class == "other" {
						c.violate(Violation{Suite: s.Name, Kind: "property", Index: j, Class: "child-second-call",
							Desc: "second derivation into one ChildSAKey object yields neither old|new nor new keys", Input: line, Expected: "ok " + strings.Join(app, " "), Actual: clip(r2.String())})
					}
				}
			}
		}
	}
	if seen["appended"] > 0 {
		c.note("observation: a second GenerateKeyForChildSA on the same ChildSAKey object APPENDS to the four key fields (each field = first key | second key, double length) in %d of %d cases; a ChildSAKey object must be used for exactly one derivation", seen["appended"], seen["appended"]+seen["overwritten"]+seen["other"])
	}
}

// ---------------------------------------------------------------------------
// C09

func propC09(c *Ctx) {
	g := NewGen(c.seed)
	var corr []corrCase
	c.c09Primes()
	c.c09Values(g, &corr)
	c.c09Random(g, &corr)
	sc := c.suite("dh-model-vs-impl", "correspondence",
		"lines dhpub / dhshared (Lean square-and-multiply over the generated prime, left padding as in the Go code) and spec-dhpub / spec-dhshared (RFC prime literal, fixed-width encoding) for the cases of dh-values-vs-reference (thorough: group 14 sampled 1 in 3); Go outcome = Lean driver line; non-trivial = exponent > 1 and peer > 1")
	c.correspond(sc, corr)
}

func kdLeadingZeros(b []byte) int {
	n := 0
	for n < len(b) && b[n] == 0 {
		n++
	}
	return n
}

func (c *Ctx) c09Primes() {
	s := c.suite("rfc-primes", "oracle",
		"both groups: the modulus is identified by behaviour - GetSharedKey(1, P) = 0 and GetSharedKey(1, P-1) = P-1 for the RFC 2409 / RFC 3526 prime P written from the RFC formula (so the modulus divides P and exceeds P-1), GetPublicValue(1) = 2 (generator), output length 128 / 256, transform IDs 2 / 14, exported prime strings equal the RFC literals; non-trivial = every check")
	for grp := 0; grp < 2; grp++ {
		P := kdPrimes[grp]
		L := kdGroupLen[grp]
		pm1 := new(big.Int).Sub(P, bigN(1))
		chk := func(name, got, want string) {
			s.add(fmt.Sprintf("group %d %s", kdGroupID[grp], name), true, "check:"+name)
			if got != want {
				c.violate(Violation{Suite: s.Name, Kind: "property", Class: "dh-constants:" + name,
					Desc: fmt.Sprintf("MODP group %d: %s differs from the RFC", kdGroupID[grp], name), Input: fmt.Sprintf("group %d", kdGroupID[grp]), Expected: clip(want), Actual: clip(got)})
			}
		}
		chk("modulus-divides-P", kdGoShared(grp, []byte{1}, P.Bytes()).String(), "ok "+hx(make([]byte, L)))
		chk("modulus-exceeds-P-1", kdGoShared(grp, []byte{1}, pm1.Bytes()).String(), "ok "+hx(kdPad(pm1, L)))
		chk("generator", kdGoPub(grp, []byte{1}).String(), "ok "+hx(kdPad(bigN(2), L)))
		chk("transform-id", fmt.Sprint(dh.StrToType(dhNames[grp]).TransformID()), fmt.Sprint(kdGroupID[grp]))
		chk("prime-string", strings.ToUpper([]string{dh.Group2PrimeString, dh.Group14PrimeString}[grp]), []string{kdGroup2Hex, kdGroup14Hex}[grp])
		chk("generator-constant", fmt.Sprint([]int{dh.Group2Generator, dh.Group14Generator}[grp]), "2")
		// shape of the RFC formula: top and bottom 64 bits are ones, length n bits
		chk("literal-shape", fmt.Sprintf("%d %x %x", P.BitLen(), new(big.Int).Rsh(P, uint(P.BitLen()-64)), new(big.Int).And(P, new(big.Int).SetUint64(^uint64(0)))),
			fmt.Sprintf("%d ffffffffffffffff ffffffffffffffff", 8*L))
	}
}

func (c *Ctx) c09Values(g *Gen, corr *[]corrCase) {
	s := c.suite("dh-values-vs-reference", "oracle",
		"both groups; exponents 0, 1, 2, (p-1)/2, p-1, p, p+1, 2^2048-1, exponents 8(L-k)-8..8(L-k)-1 and p-1+those (public value 2^e with k = 1..3 leading zero octets), random 2048-bit and short exponents, with and without leading zero octets in their encoding; peer values 0, 1, 2, p-1, p, p+1, 2p, 2^(8L)-1, 2^2056-1, random < 2^2056, random < p, small, and peers t^(1/x) constructed so that the shared secret is a chosen t with 1..3 (or L-1) leading zero octets for a random large odd x; GetPublicValue / GetSharedKey = own square-and-multiply over the RFC prime literal (cross-checked with big.Int.Exp), left-padded to exactly 128 / 256 octets; agreement shared(a, pub(b)) = shared(b, pub(a)) on all exponent pairs of a sample; the last 6 returned octet strings stay referenced and must not change during later calls; non-trivial = exponent > 1 and base > 1; distinct by (group, op, exponent, peer)")
	for grp := 0; grp < 2; grp++ {
		P := kdPrimes[grp]
		L := kdGroupLen[grp]
		pm1 := new(big.Int).Sub(P, bigN(1))
		add := func(a *big.Int, d int64) *big.Int { return new(big.Int).Add(a, bigN(d)) }
		exps := []*big.Int{bigN(0), bigN(1), bigN(2), new(big.Int).Rsh(pm1, 1), pm1, P, add(P, 1),
			new(big.Int).Sub(new(big.Int).Lsh(bigN(1), 2048), bigN(1))}
		for k := 1; k <= 3; k++ {
			lo := int64(8*(L-k) - 8)
			for _, e := range []int64{lo, lo + 3, lo + 7} {
				exps = append(exps, bigN(e), add(pm1, e))
			}
		}
		for j := 0; j < c.n(4, 40); j++ {
			exps = append(exps, new(big.Int).SetBytes(g.keyBytesRandom(256)), new(big.Int).SetBytes(g.keyBytesRandom(1+g.intn(40))))
		}
		peers := []*big.Int{bigN(0), bigN(1), bigN(2), pm1, P, add(P, 1), new(big.Int).Lsh(P, 1),
			new(big.Int).Sub(new(big.Int).Lsh(bigN(1), uint(8*L)), bigN(1)), new(big.Int).Sub(new(big.Int).Lsh(bigN(1), 2056), bigN(1))}
		for j := 0; j < c.n(3, 20); j++ {
			peers = append(peers, new(big.Int).SetBytes(g.keyBytesRandom(257)), new(big.Int).Mod(new(big.Int).SetBytes(g.keyBytesRandom(300)), P),
				new(big.Int).SetBytes(g.keyBytesRandom(1+g.intn(8))))
		}
		idx := 0
		check := func(op string, xb, yb []byte, x, y *big.Int) {
			idx++
			var r callRes
			var want []byte
			var line string
			base := bigN(2)
			if op == "dhpub" {
				line = fmt.Sprintf("dhpub %d %s", grp, hx(xb))
				setCase(line)
				r, want = kdGoPub(grp, xb), kdRefPub(grp, x)
			} else {
				base = y
				line = fmt.Sprintf("dhshared %d %s %s", grp, hx(xb), hx(yb))
				setCase(line)
				r, want = kdGoShared(grp, xb, yb), kdRefShared(grp, x, y)
			}
			if chk := new(big.Int).Exp(base, x, P); chk.Cmp(new(big.Int).SetBytes(want)) != 0 {
				panic("harness: reference square-and-multiply disagrees with big.Int.Exp on " + line)
			}
			nontr := x.Cmp(bigN(1)) > 0 && base.Cmp(bigN(1)) > 0
			lz := kdLeadingZeros(want)
			lzt := fmt.Sprint(lz)
			if lz > 3 {
				lzt = "4+"
			}
			s.add(line, nontr, fmt.Sprintf("group:%d", kdGroupID[grp]), "op:"+op, "leading-zero-octets:"+lzt)
			if !c.thorough() || grp == 0 || idx%3 == 0 {
				*corr = append(*corr, corrCase{line: line, goRes: r.String(), nontr: nontr, tags: []string{"op:" + op, "leading-zero-octets:" + lzt}})
				if idx%2 == 0 {
					*corr = append(*corr, corrCase{line: "spec-" + line, goRes: r.String(), nontr: nontr, tags: []string{"op:spec-" + op}})
				}
			}
			if what, was, now := dhKeptChanged(); what != "" {
				dhKept = nil
				c.violate(Violation{Suite: s.Name, Kind: "property", Index: idx, Class: "dh-value:changed-by-later-call",
					Desc:  "an octet string returned by an EARLIER GetPublicValue / GetSharedKey call (" + clip(what) + ") changed during this call (replay: re-run of the whole suite with this seed)",
					Input: "", Expected: clip(was), Actual: clip(now)})
			}
			if r.String() != "ok "+hx(want) || len(want) != L {
				c.violate(Violation{Suite: s.Name, Kind: "property", Index: idx, Class: "dh-value:" + op + ":" + r.kind,
					Desc: fmt.Sprintf("group %d: %s differs from base^x mod p as a %d-octet big-endian string", kdGroupID[grp], op, L), Input: line, Expected: "ok " + hx(want), Actual: clip(r.String())})
			}
		}
		enc := func(v *big.Int, j int) []byte { // sometimes with leading zero octets in the encoding
			if j%4 == 3 {
				return append(make([]byte, 1+j%3), v.Bytes()...)
			}
			return v.Bytes()
		}
		for j, x := range exps {
			check("dhpub", enc(x, j), nil, x, nil)
		}
		for j, x := range exps {
			for k, y := range peers {
				if !c.thorough() && grp == 1 && (j+k)%3 != 0 {
					continue
				}
				check("dhshared", enc(x, j), enc(y, k+j), x, y)
			}
		}
		// constructed leading zeros with large random exponents: y = t^(x^-1 mod p-1), so y^x = t
		for j := 0; j < c.n(12, 200); j++ {
			x := new(big.Int).SetBytes(g.keyBytesRandom(256))
			x.SetBit(x, 0, 1)
			d := new(big.Int).ModInverse(x, pm1)
			if d == nil {
				continue
			}
			zeros := []int{1, 2, 3, L - 1}[j%4]
			t := new(big.Int).SetBytes(g.kdRandBuf(L - zeros))
			y := kdModPow(t, d, P)
			if j%2 == 1 {
				y.Add(y, P) // the same residue presented unreduced
			}
			check("dhshared", x.Bytes(), y.Bytes(), x, y)
		}
		// random search for a public value with a leading zero octet
		found := 0
		for j := 0; j < c.n(600, 6000) && found < c.n(1, 8); j++ {
			x := new(big.Int).SetBytes(g.keyBytesRandom(256))
			if new(big.Int).Exp(bigN(2), x, P).BitLen() <= 8*(L-1) { // search only; the hit is checked against the reference
				found++
				check("dhpub", x.Bytes(), nil, x, nil)
			}
		}
		// agreement
		sample := exps
		if len(sample) > c.n(11, 40) {
			sample = append(append([]*big.Int{}, exps[:8]...), exps[len(exps)-c.n(3, 32):]...)
		}
		for _, a := range sample {
			for _, b := range sample {
				idx++
				pa, pb := kdGoPub(grp, a.Bytes()), kdGoPub(grp, b.Bytes())
				if pa.kind != "ok" || pb.kind != "ok" {
					continue
				}
				sab, sba := kdGoShared(grp, a.Bytes(), unhx(pb.val)), kdGoShared(grp, b.Bytes(), unhx(pa.val))
				line := fmt.Sprintf("agree %d %s %s", grp, hx(a.Bytes()), hx(b.Bytes()))
				s.add(line, a.Cmp(bigN(1)) > 0 && b.Cmp(bigN(1)) > 0, fmt.Sprintf("group:%d", kdGroupID[grp]), "op:agreement")
				if sab.kind != "ok" || sab != sba {
					c.violate(Violation{Suite: s.Name, Kind: "property", Index: idx, Class: "dh-agreement",
						Desc: "two parties compute different shared secrets from each other's public values", Input: line, Expected: clip(sab.String()), Actual: clip(sba.String())})
				}
			}
		}
	}
}

func (c *Ctx) c09Random(g *Gen, corr *[]corrCase) {
	s := c.suite("random-exponent", "oracle",
		"security.GenerateRandomNumber under the deterministic crypto/rand.Reader: octet streams random (256..700 octets, cyclic), first draw forced <= 2^128-1 (240 zero octets, incl. exactly 2^128-1 and exactly 2^128), first draw forced = 2^2048-1 (rejected inside rand.Int); result = what the stdlib's rand.Int yields for the same octets, 2^128 <= r < 2^2048, reader consumed equally; the same octets delivered in pieces of at most 1/7/100/255 octets per Read give the same number, a source failing in the middle of a draw gives an error; different served octets give different numbers, two calls on one stream differ; a failure injected at every Read index 0..k-1 (k = reads of the successful run) gives an error and no number, at index k no failure is seen; NewIKESAKey and CalculateDiffieHellmanMaterials with the failing reader return an error and no SA / public value, with a good reader the local public value is 2^r mod p; non-trivial = every case; distinct by octet stream")
	lo := new(big.Int).Lsh(bigN(1), 128)
	hi := new(big.Int).Lsh(bigN(1), 2048)
	seen := map[string]string{}
	n := c.n(120, 6000)
	for j := 0; j < n; j++ {
		var rnd []byte
		kind := "random"
		switch j % 7 {
		case 6:
			kind = "first-draw-top" // the upper end of the range: 2^2048 - 2^128 <= draw < 2^2048 - 1
			rnd = append(append(bytes.Repeat([]byte{0xff}, 240), g.keyBytesRandom(16)...), g.kdRandBuf(256)...)
			if j%14 == 6 {
				rnd[255] = 0xfe // 2^2048 - 2: the largest value rand.Int can return
				copy(rnd[240:255], bytes.Repeat([]byte{0xff}, 15))
			}
		case 0, 1:
			rnd = g.kdRandBuf(256 + g.intn(445))
		case 2:
			kind = "first-draw-small"
			rnd = append(append(make([]byte, 240), g.keyBytesRandom(16)...), g.kdRandBuf(256)...)
		case 3:
			kind = "first-draw-2^128-1"
			rnd = append(append(make([]byte, 240), bytes.Repeat([]byte{0xff}, 16)...), g.kdRandBuf(256)...)
		case 4:
			kind = "first-draw-2^128"
			rnd = append(append(append(make([]byte, 239), 1), make([]byte, 16)...), g.kdRandBuf(256)...)
		case 5:
			kind = "first-draw-max"
			rnd = append(bytes.Repeat([]byte{0xff}, 256), g.kdRandBuf(256)...)
		}
		text := "genrandom " + hx(rnd)
		setCase(text)
		want, reads := kdPredictSecret(rnd)
		s.add(text, true, "stream:"+kind, fmt.Sprintf("reads:%d", reads))
		fail := func(class, desc, exp, act string) {
			c.violate(Violation{Suite: s.Name, Kind: "property", Index: j, Class: "random:" + class, Desc: desc, Input: text, Expected: clip(exp), Actual: clip(act)})
		}
		var got *big.Int
		var rd *detReader
		r := guard(func() (string, error) {
			var err error
			rd = withRand(rnd, -1, func() { got, err = security.GenerateRandomNumber() })
			if err != nil {
				return "", err
			}
			return got.Text(16), nil
		})
		if r.kind != "ok" || got.Cmp(want) != 0 || got.Cmp(lo) < 0 || got.Cmp(hi) >= 0 || rd.reads != reads {
			fail("value", "GenerateRandomNumber does not return the first draw in [2^128, 2^2048) of the random source", "ok "+want.Text(16)+fmt.Sprintf(" after %d reads", reads), r.String())
			continue
		}
		served := string(rd.served[len(rd.served)-256:])
		if prev, ok := seen[r.val]; ok && prev != served {
			fail("collision", "two different octet sequences produced the same exponent", "distinct exponents", r.val)
		}
		seen[r.val] = served
		// the same octets delivered in pieces (Read may return fewer octets than asked, with a nil error), and a
		// source that fails after delivering a part of what one draw needs
		for _, chunk := range []int{1, 7, 100, 255} {
			var num *big.Int
			cr := guard(func() (string, error) {
				var err error
				withChunkRand(rnd, chunk, -1, func() { num, err = security.GenerateRandomNumber() })
				if err != nil {
					return "", err
				}
				return num.Text(16), nil
			})
			s.Dist["chunked-source:"+cr.kind]++
			if cr.String() != r.String() {
				fail("short-reads", fmt.Sprintf("random source delivering at most %d octets per Read (nil error): result differs from the result on the same octets delivered at once", chunk), r.String(), cr.String())
				break
			}
		}
		if j%3 == 0 {
			cut := 1 + g.intn(255)
			var num *big.Int
			cr := guard(func() (string, error) {
				var err error
				withChunkRand(rnd, 64, cut, func() { num, err = security.GenerateRandomNumber() })
				if err != nil {
					return "", err
				}
				return num.Text(16), nil
			})
			if cr.kind != "err" || num != nil {
				fail("failure-ignored", fmt.Sprintf("random source failed after delivering %d octets of the first draw (short reads, then an error) but a number was returned", cut), "err", cr.String())
			}
		}
		// two calls on one stream
		if j%6 <= 1 {
			var a, b *big.Int
			withRand(g.kdRandBuf(512), -1, func() { a, _ = security.GenerateRandomNumber(); b, _ = security.GenerateRandomNumber() })
			if a == nil || b == nil || a.Cmp(b) == 0 {
				fail("repeat", "two consecutive calls on a non-repeating stream returned the same exponent", "different", "equal")
			}
		}
		// failure at every read
		for f := 0; f <= reads; f++ {
			var num *big.Int
			fr := guard(func() (string, error) {
				var err error
				withRand(rnd, f, func() { num, err = security.GenerateRandomNumber() })
				if err != nil {
					return "", err
				}
				return num.Text(16), nil
			})
			s.Dist[fmt.Sprintf("fail-injected:%s", fr.kind)]++
			if corr != nil && (j < 40 || j%10 == 0) { // the same through the model generated from the source
				gr := fr
				if gr.kind == "ok" {
					gr.val = "x" + gr.val
				}
				*corr = append(*corr, corrCase{line: fmt.Sprintf("genrandom %s %d", hx(rnd), f), goRes: gr.String(), nontr: true, genOnly: true, tags: []string{"op:genrandom"}})
			}
			if f < reads && (fr.kind != "err" || num != nil) {
				fail("failure-ignored", fmt.Sprintf("random source failed at read %d but a number was returned", f), "err", fr.String())
			}
			if f == reads && fr.String() != r.String() {
				fail("failure-unreached", "a failure scheduled after the last read changed the result", r.String(), fr.String())
			}
		}
		// NewIKESAKey / CalculateDiffieHellmanMaterials
		if j%4 == 0 {
			grp := j / 4 % 2
			st := suite{g.intn(3), g.intn(3), g.intn(3)}
			prop, err := kdWire(kdHandProposal(g, st, grp))
			if err != nil {
				fail("proposal", "proposal does not survive the codec", "ok", err.Error())
				continue
			}
			peer := kdRefPub(grp, new(big.Int).SetBytes(g.keyBytesRandom(64)))
			nonce := g.bytes(g.kdLen())
			for f := -1; f < reads; f++ {
				var sa *security.IKESAKey
				var pub, pub2, sh2 []byte
				nr := guard(func() (string, error) {
					var err error
					withRand(rnd, f, func() { sa, pub, err = security.NewIKESAKey(prop, exact(peer), exact(nonce), 1, 2) })
					if err != nil {
						return "", err
					}
					return hx(pub), nil
				})
				cr := guard(func() (string, error) {
					var err error
					withRand(rnd, f, func() { pub2, sh2, err = security.CalculateDiffieHellmanMaterials(kdBlankSA(st, grp), exact(peer)) })
					if err != nil {
						return "", err
					}
					return hx(pub2) + " " + hx(sh2), nil
				})
				s.Dist["new-ike-sa:"+nr.kind]++
				if f >= 0 {
					if nr.kind != "err" || sa != nil || pub != nil || cr.kind != "err" || pub2 != nil || sh2 != nil {
						fail("sa-despite-failure", fmt.Sprintf("random source failed at read %d but NewIKESAKey / CalculateDiffieHellmanMaterials returned material", f), "err", nr.String()+" / "+cr.String())
					}
				} else {
					wp, ws := hx(kdRefPub(grp, want)), hx(kdRefShared(grp, want, new(big.Int).SetBytes(peer)))
					if nr.String() != "ok "+wp || cr.String() != "ok "+wp+" "+ws {
						fail("local-public-value", "local public value / shared secret is not 2^r, y^r mod p for the drawn exponent r", "ok "+wp+" "+ws, nr.String()+" / "+cr.String())
					}
				}
			}
		}
	}
}

// ---------------------------------------------------------------------------
// C16

// RFC 5448 / RFC 9048 s3.4.1: PRF'(K,S) = T1 | T2 | ..., T1 = HMAC-SHA-256(K, S|0x01), Tn = HMAC-SHA-256(K, Tn-1|S|n)
func kdPrfPrime(key, s []byte, n int) []byte {
	var out, t []byte
	for i := 1; len(out) < n; i++ {
		m := hmac.New(sha256.New, key)
		m.Write(t)
		m.Write(s)
		m.Write([]byte{byte(i)})
		t = m.Sum(nil)
		out = append(out, t...)
	}
	return out[:n]
}

func kdAkaGo(ik, ck, id []byte) callRes {
	var a, b []byte // nil stays nil
	if ik != nil {
		a = argBuf("akaprf.ik", ik)
	}
	if ck != nil {
		b = argBuf("akaprf.ck", ck)
	}
	r := guard(func() (string, error) {
		ke, ka, kr, msk, emsk, err := eap.EapAkaPrimePRF(a, b, string(id))
		if err != nil {
			if ke != nil || ka != nil || kr != nil || msk != nil || emsk != nil {
				return "key-material-with-error", nil
			}
			return "", err
		}
		return strings.Join([]string{hx(ke), hx(ka), hx(kr), hx(msk), hx(emsk)}, " "), nil
	})
	if !bytes.Equal(a, ik) || !bytes.Equal(b, ck) {
		return callRes{kind: "ok", val: "inputs-modified"}
	}
	return r
}

func propC16(c *Ctx) {
	g := NewGen(c.seed)
	s := c.suite("aka-prf-vs-rfc", "oracle",
		"eap.EapAkaPrimePRF: IK', CK' of 1..64 octets each (equal and unequal lengths, 16/16 most often; all-zero, all-ff, random), identity = Go string made from 0..255 arbitrary octets (incl. NUL, >= 0x80, invalid UTF-8, empty); K_encr, K_aut, K_re, MSK, EMSK = octets [0,16) [16,48) [48,80) [80,144) [144,208) of the stdlib HMAC-SHA-256 recursion PRF'(IK'|CK', \"EAP-AKA'\"|identity); empty (nil and zero-length) IK' or CK' => error and no key material; inputs unchanged; before every third call some unrelated operation of the library is performed (a message encoded, an EAP-AKA' packet marshalled and MACed, a datagram decoded, an SA keyed, a message protected ...); every 4th call uses the arguments of the preceding call with an argument boundary moved by 1..3 octets (IK'|CK', CK'|identity), the same arguments again, or one octet changed; non-trivial = both keys non-empty; distinct by (IK', CK', identity)")
	var corr []corrCase
	n := c.n(600, 60000)
	var prevIk, prevCk, prevId []byte
	for j := 0; j < n; j++ {
		var ik, ck, id []byte
		la, lb := 16, 16
		switch j % 5 {
		case 1:
			la, lb = 1+g.intn(64), 1+g.intn(64)
		case 2:
			la = g.pick(1, 15, 17, 31, 32, 33, 63, 64)
			lb = g.pick(1, 15, 17, 31, 32, 33, 63, 64)
		case 3:
			la = 1 + g.intn(64)
			lb = la
		}
		ik, ck = g.bytes(la), g.bytes(lb)
		switch j % 7 {
		case 0:
			id = []byte("0" + fmt.Sprintf("%015d", g.r.Int63n(1e15)) + "@nai.epc.mnc001.mcc001.3gppnetwork.org")
		case 1:
			id = g.bytes(g.pick(0, 1, 23, 24, 55, 56, 119, 120, 254, 255))
		case 2:
			id = []byte{0xff, 0xfe, 0x00, 0xc3, 0x28, 0xed, 0xa0, 0x80, 0xf8}[:g.intn(10)]
		case 3: // an identity that begins or ends with (or is) a string constant of the source: the function's own label among them
			if len(dictStrs) > 0 {
				lit := dictStrs[g.r.Intn(len(dictStrs))]
				if g.chance(0.5) {
					lit = "EAP-AKA'"
				}
				switch g.intn(3) {
				case 0:
					id = append([]byte(lit), g.keyBytesRandom(g.intn(40))...)
				case 1:
					id = append(g.keyBytesRandom(g.intn(40)), lit...)
				default:
					id = []byte(lit)
				}
			} else {
				id = append([]byte("EAP-AKA'"), g.keyBytesRandom(g.intn(40))...)
			}
		default:
			id = g.keyBytesRandom(g.intn(256))
		}
		derived := ""
		if j%4 == 3 && len(prevIk) > 1 && len(prevCk) > 1 {
			// inputs related to those of the PRECEDING call: the same octets with a boundary between two arguments
			// moved, the same call again, or one octet changed (whatever is remembered between calls must be keyed
			// on the arguments themselves, not on their concatenation or a part of it)
			ik, ck, id = append([]byte{}, prevIk...), append([]byte{}, prevCk...), append([]byte{}, prevId...)
			k := 1 + g.intn(3)
			switch g.intn(6) {
			case 0:
				if len(ck) > k {
					id, ck, derived = append(append([]byte{}, ck[len(ck)-k:]...), id...), ck[:len(ck)-k], "CK' tail moved to the identity"
				}
			case 1:
				if len(id) >= k {
					ck, id, derived = append(ck, id[:k]...), id[k:], "identity head moved to CK'"
				}
			case 2:
				if len(ik) > k {
					ck, ik, derived = append(append([]byte{}, ik[len(ik)-k:]...), ck...), ik[:len(ik)-k], "IK' tail moved to CK'"
				}
			case 3:
				if len(ck) > k {
					ik, ck, derived = append(ik, ck[:k]...), ck[k:], "CK' head moved to IK'"
				}
			case 4:
				if g.chance(0.5) {
					derived = "same arguments again"
				} else {
					ik, ck, derived = g.keyBytesRandom(len(ik)), g.keyBytesRandom(len(ck)), "new keys of the same sizes, same identity"
				}
			default:
				if len(id) > 0 {
					id[len(id)-1] ^= 1
					derived = "last identity octet changed"
				} else {
					ck[len(ck)-1] ^= 1
					derived = "last CK' octet changed"
				}
			}
		}
		prevIk, prevCk, prevId = ik, ck, id
		if j%40 == 39 { // refused inputs
			switch g.intn(6) {
			case 0:
				ik = nil
			case 1:
				ik = []byte{}
			case 2:
				ck = nil
			case 3:
				ck = []byte{}
			case 4:
				ik, ck = nil, nil
			default:
				ik, ck = []byte{}, []byte{}
			}
		}
		if j%3 == 1 {
			libNoise(g) // some other use of the library in between
		}
		line := fmt.Sprintf("akaprf %s %s %s", hx(ik), hx(ck), hx(id))
		setCase(line)
		empty := len(ik) == 0 || len(ck) == 0
		s.add(line, !empty, fmt.Sprintf("equal-key-lengths:%v", len(ik) == len(ck)), fmt.Sprintf("empty-key:%v", empty), "identity-len:"+kdBucket(len(id)+1))
		r := kdAkaGo(ik, ck, id)
		want := "err"
		if !empty {
			mk := kdPrfPrime(append(append([]byte{}, ik...), ck...), append([]byte("EAP-AKA'"), id...), 208)
			want = "ok " + strings.Join([]string{hx(mk[0:16]), hx(mk[16:48]), hx(mk[48:80]), hx(mk[80:144]), hx(mk[144:208])}, " ")
		}
		if !c.thorough() || j%8 == 0 || empty {
			corr = append(corr, corrCase{line: line, goRes: r.String(), nontr: !empty, tags: []string{"op:akaprf"}})
			corr = append(corr, corrCase{line: "spec-" + line, goRes: r.String(), nontr: !empty, tags: []string{"op:spec-akaprf"}})
		}
		if r.String() != want {
			class := "aka-prf"
			if empty {
				class = "aka-prf-empty-key"
			}
			c.violate(Violation{Suite: s.Name, Kind: "property", Index: j, Class: class,
				Desc: "EapAkaPrimePRF differs from the RFC 5448 / 9048 key hierarchy" + map[bool]string{true: " (call made right after a call with related arguments: " + derived + "; replay: re-run of the suite with this seed)", false: ""}[derived != ""], Input: line, Expected: want, Actual: clip(r.String())})
		}
	}
	c.c16ManyCalls(g)
	sc := c.suite("aka-prf-model-vs-impl", "correspondence",
		"lines akaprf (Lean transliteration) and spec-akaprf (Lean RFC transcription) for the oracle cases (thorough: 1 in 8 plus all refused inputs); Go outcome = Lean driver line; non-trivial = both keys non-empty")
	c.correspond(sc, corr)
}
