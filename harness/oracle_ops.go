package main

// C10 (AES-CBC transform), C17 (SA key objects are reusable), C18 (concurrent
// use of independent SAs and messages: supporting evidence through the race
// detector, see racecheck/main.go).
//
// Operation lines shared with the Lean driver (lean/DriverOps.lean):
//   cbc-encrypt x<key> x<rnd stream> <failAt|-1> x<plaintext>   -> ok x<ct> | err
//   cbc-decrypt x<key> x<ct>                                    -> ok x<pt> | err
//   newcrypto <descriptor 0..2> x<key>                          -> ok | err
//   cbc-seq x<key> x<rnd stream> (E x<pt>) (D x<ct>) ...        -> results separated by one blank
//   saops <e> <i> <p> x<d> x<ai> x<ar> x<ei> x<er> x<pi> x<pr> (P <I|R> x<rnd> <msg>)
//         (U <I|R> <0|1> x<bytes>) (C <encrIdx> <integIdx|-1> x<nonce>) ... -> results separated by " | "

import (
	"bytes"
	"crypto/hmac"
	crand "crypto/rand"
	"fmt"
	"os"
	"os/exec"
	"path/filepath"
	"runtime"
	"strconv"
	"strings"
	"time"

	"github.com/free5gc/ike/message"
	"github.com/free5gc/ike/security"
	ikeCrypto "github.com/free5gc/ike/security/IKECrypto"
	"github.com/free5gc/ike/security/encr"
	"github.com/free5gc/ike/security/integ"
)

func init() {
	props["C10"] = propC10
	props["C17"] = propC17
	props["C18"] = propC18
}

// ===========================================================================
// C10

// descriptor a key of this size is offered to: the one with exactly this key
// length, else descriptor 0 (which must then refuse it).  Same rule in DriverOps.lean.
func descIdxFor(key []byte) int {
	for i, l := range refEncrKeyLen {
		if l == len(key) {
			return i
		}
	}
	return 0
}

func okWord(r callRes) string {
	if r.kind == "ok" {
		return "ok"
	}
	return r.kind
}

func newCipher(idx int, key []byte) (obj ikeCrypto.IKECrypto, res callRes) {
	in := exact(key)
	setCase(fmt.Sprintf("newcrypto %d %s", idx, hx(key)))
	res = guard(func() (string, error) {
		var err error
		obj, err = encr.StrToType(encrNames[idx]).NewCrypto(in)
		return "", err
	})
	for i := range in { // the key buffer is the caller's: wiped right after the object was built, before its first use
		in[i] = 0x5c
	}
	return
}

// generator of the in-between operations of suites whose own generator is not passed down
var noiseGen = NewGen(20240917)

// one Encrypt call; ct is whatever the call returned next to its error
func cbcEnc(obj ikeCrypto.IKECrypto, pt []byte) (res callRes, ct []byte) {
	in := exact(pt)
	res = guard(func() (string, error) {
		var err error
		ct, err = obj.Encrypt(in)
		if err != nil {
			return "", err
		}
		return hx(ct), nil
	})
	return
}

func cbcDec(obj ikeCrypto.IKECrypto, ct []byte) callRes {
	roCtr++
	in, changed := roBuf(ct, roCtr%2 == 0)
	r := guard(func() (string, error) {
		p, err := obj.Decrypt(in)
		if err != nil {
			return "", err
		}
		return hx(p), nil
	})
	if w := changed(); w != "" && r.kind != "panic" {
		return callRes{kind: "panic", val: "Decrypt wrote into the ciphertext it was given: " + w}
	}
	return r
}

// what a textbook AES-CBC receiver that strips (pad-length octet + 1) octets returns
func refDecryptExpect(key, ct []byte) callRes {
	if len(ct) < 32 || (len(ct)-16)%16 != 0 {
		return callRes{kind: "err"}
	}
	pt := refCBCDecrypt(key, ct[:16], ct[16:])
	pad := int(pt[len(pt)-1])
	if pad+1 > len(pt) {
		return callRes{kind: "err"}
	}
	return callRes{kind: "ok", val: hx(pt[:len(pt)-pad-1])}
}

func cbcEncLine(key, rnd []byte, failAt int, pt []byte) string {
	return fmt.Sprintf("cbc-encrypt %s %s %d %s", hx(key), hx(rnd), failAt, hx(pt))
}

func cbcDecLine(key, ct []byte) string { return fmt.Sprintf("cbc-decrypt %s %s", hx(key), hx(ct)) }

// laws of one successful Encrypt output `ct` for plaintext `pt` under `key`;
// served: the octets the random source delivered during THIS call (nil: real source)
func c10EncryptLaws(key, pt, ct, served []byte, reads int) (class, desc string, tight bool) {
	n := len(pt)
	if len(ct) < 32 || (len(ct)-16)%16 != 0 {
		return "size-law", fmt.Sprintf("ciphertext length %d is not 16 + 16k, k >= 1", len(ct)), false
	}
	body := len(ct) - 16
	if !(n < body && body <= n+256) {
		return "size-law", fmt.Sprintf("ciphertext body %d for plaintext %d violates n < 16k <= n+256", body, n), false
	}
	tight = body <= n+16
	ref := refCBCDecrypt(key, ct[:16], ct[16:])
	if !bytes.Equal(ref[:n], pt) {
		return "textbook-cbc", "textbook AES-CBC decryption under the leading IV does not start with the plaintext", tight
	}
	if int(ref[len(ref)-1]) != body-n-1 {
		return "textbook-cbc", fmt.Sprintf("pad-length octet is %d, expected 16k-n-1 = %d", ref[len(ref)-1], body-n-1), tight
	}
	if served != nil {
		padLen := 16 - n%16
		if reads != 2 {
			return "fresh-iv", fmt.Sprintf("Encrypt read the random source %d times, expected 2 (padding, IV)", reads), tight
		}
		if len(served) != padLen+16 || !bytes.Equal(ct[:16], served[padLen:]) {
			return "fresh-iv", "IV is not the 16 octets drawn from the random source in this call after the padding draw", tight
		}
	}
	return "", "", tight
}

func propC10(c *Ctx) {
	if c.replay != nil {
		c.replayOps()
		return
	}
	g := NewGen(c.seed)
	c.note("go runtime %s; crypto/rand.Read = io.ReadFull(rand.Reader) in this toolchain (an injected Reader failure is returned as an error; Go >= 1.24 aborts the process instead)", runtime.Version())
	var corrEnc, corrDec, corrNew, corrSeq []corrCase
	c.c10Encrypt(g, &corrEnc)
	c.c10FreshIV(g, &corrSeq)
	c.c10ManyCalls(g)
	c.c10RandFailure(g, &corrEnc)
	c.c10KeySizes(g, &corrNew)
	c.c10Decrypt(g, &corrDec)
	c.correspond(c.suite("cbc-encrypt-model-vs-impl", "correspondence",
		"cbc-encrypt lines of the encrypt-laws and rand-failure suites (injected random stream, failure index): Go Encrypt bytes / error = Lean newCrypto+cbcEncrypt; non-trivial = call succeeds with plaintext >= 1 octet"), corrEnc)
	c.correspond(c.suite("cbc-decrypt-model-vs-impl", "correspondence",
		"cbc-decrypt lines of the decrypt-arbitrary suite (all lengths 0..96, pad octets 0,8,..,248 and 253..255, long bodies): Go Decrypt outcome = Lean cbcDecrypt; non-trivial = block-aligned input >= 32 octets"), corrDec)
	c.correspond(c.suite("newcrypto-model-vs-impl", "correspondence",
		"newcrypto lines: every key length 0..64 x 3 descriptors: Go NewCrypto ok/err = Lean newCrypto; non-trivial = accepted key"), corrNew)
	c.correspond(c.suite("cbc-seq-model-vs-impl", "correspondence",
		"cbc-seq lines: Encrypt/Decrypt call sequences on ONE cipher object under one injected random stream: Go results = Lean cbcRun; non-trivial = >= 2 Encrypt calls and >= 1 Decrypt"), corrSeq)
}

// (1)(2)(3)(4a): inverse, size law, textbook CBC, IV = this call's draw
func (c *Ctx) c10Encrypt(g *Gen, corr *[]corrCase) {
	s := c.suite("encrypt-laws", "oracle",
		"per key size 16/24/32 (fixed all-zero/all-ff and random keys): every plaintext length 0..300, boundary lengths up to 4096, random lengths 0..4096; Encrypt under an injected random stream AND under the real crypto/rand.Reader; checked: Decrypt(Encrypt(p)) = p on the same and on a new object, |ct| = 16+16k with n < 16k <= n+256 (tag tight = 16k <= n+16), stdlib CBC decryption = p || pad || [16k-n-1], IV = the 16 octets drawn in this call after the padding draw, exactly 2 reads; non-trivial = plaintext >= 1 octet; distinct by (key, random stream, plaintext)")
	idx := 0
	for e := 0; e < 3; e++ {
		var lens []int
		for n := 0; n <= 300; n++ {
			lens = append(lens, n)
		}
		lens = append(lens, 511, 512, 513, 1023, 1024, 1025, 2047, 2048, 2049, 4079, 4080, 4081, 4094, 4095, 4096)
		for i := 0; i < c.n(120, 3000); i++ {
			lens = append(lens, g.r.Intn(4097))
		}
		for _, n := range lens {
			idx++
			key := g.keyBytes(refEncrKeyLen[e])
			pt := g.bytes(n)
			rnd := g.keyBytesRandom(48)
			c.c10EncryptCase(s, idx, key, rnd, pt, corr, n <= 300 || idx%4 == 0)
		}
	}
}

func (c *Ctx) c10EncryptCase(s *SuiteStat, idx int, key, rnd, pt []byte, corr *[]corrCase, sample bool) {
	if idx%7 == 3 {
		libNoise(noiseGen)
	}
	line := cbcEncLine(key, rnd, -1, pt)
	setCase(line)
	fail := func(class, desc, exp, act string) {
		c.violate(Violation{Suite: s.Name, Kind: "property", Index: idx, Class: class, Desc: desc, Input: line, Expected: exp, Actual: clip(act)})
	}
	e := descIdxFor(key)
	obj, nr := newCipher(e, key)
	if nr.kind != "ok" {
		s.add(line, false, "newcrypto:"+nr.kind)
		fail("key-refused", "key of the negotiated size refused by NewCrypto", "ok", nr.kind)
		return
	}
	var res callRes
	var ct []byte
	rd := withRand(rnd, -1, func() { res, ct = cbcEnc(obj, pt) })
	tags := []string{fmt.Sprintf("keylen:%d", len(key)), "outcome:" + res.kind}
	if corr != nil && sample {
		*corr = append(*corr, corrCase{line: line, goRes: res.String(), nontr: res.kind == "ok" && len(pt) > 0, tags: []string{"failAt:-1"}})
	}
	if res.kind != "ok" {
		s.add(line, len(pt) > 0, tags...)
		fail("encrypt-fails:"+res.kind, "Encrypt failed with a working random source: "+res.val, "ok", res.String())
		return
	}
	class, desc, tight := c10EncryptLaws(key, pt, ct, rd.served, rd.reads)
	tags = append(tags, fmt.Sprintf("tight(16k<=n+16):%v", tight), fmt.Sprintf("n%%16:%d", len(pt)%16))
	s.add(line, len(pt) > 0, tags...)
	if class != "" {
		fail(class, desc, "C10 laws", res.String())
		return
	}
	want := "ok " + hx(pt)
	if d := cbcDec(obj, ct); d.String() != want {
		fail("inverse:"+d.kind, "Decrypt(Encrypt(p)) on the same object is not p", want, d.String())
		return
	}
	obj2, _ := newCipher(e, key)
	if d := cbcDec(obj2, ct); d.String() != want {
		fail("inverse:"+d.kind, "Decrypt(Encrypt(p)) on a new object with the same key is not p", want, d.String())
		return
	}
	// the same with the real random source
	res2, ct2 := cbcEnc(obj, pt)
	if res2.kind != "ok" {
		fail("encrypt-fails:"+res2.kind, "Encrypt failed with the real random source", "ok", res2.String())
		return
	}
	if class, desc, _ := c10EncryptLaws(key, pt, ct2, nil, 0); class != "" {
		fail(class, desc+" (real random source)", "C10 laws", res2.String())
		return
	}
	if d := cbcDec(obj2, ct2); d.String() != want {
		fail("inverse:"+d.kind, "Decrypt(Encrypt(p)) (real random source) is not p", want, d.String())
	}
}

// one call sequence on one object under one injected stream
type cbcOp struct {
	enc  bool
	data []byte
	what string
}

func cbcSeqLine(key, rnd []byte, ops []cbcOp) string {
	var sb strings.Builder
	fmt.Fprintf(&sb, "cbc-seq %s %s", hx(key), hx(rnd))
	for _, o := range ops {
		if o.enc {
			sb.WriteString(" (E " + hx(o.data) + ")")
		} else {
			sb.WriteString(" (D " + hx(o.data) + ")")
		}
	}
	return sb.String()
}

func joinRes(rs []callRes, sep string) string {
	out := make([]string, len(rs))
	for i, r := range rs {
		out[i] = r.String()
	}
	return strings.Join(out, sep)
}

// padFill: the padding octets ahead of the pad-length octet v are the sender's choice (RFC 7296 s3.14): besides
// random octets, the conventions other implementations use — every octet = v (what stock PKCS#7 code leaves when
// its last octet is read as the pad length), every octet = v+1, zeros, the ESP sequence 1, 2, 3, …
func padFill(b []byte, v byte, style int) {
	for i := range b {
		switch style % 5 {
		case 1:
			b[i] = v
		case 2:
			b[i] = v + 1
		case 3:
			b[i] = 0
		case 4:
			b[i] = byte(i + 1)
		}
	}
}

// a well-formed ciphertext a peer could have produced: random IV, pad length 0..255 compatible with the block size
func (g *Gen) peerCiphertext(key []byte, pt []byte) []byte {
	minPad := (16 - (len(pt)+1)%16) % 16
	pad := minPad + 16*g.r.Intn((255-minPad)/16+1)
	if g.chance(0.6) {
		pad = minPad
	}
	filler := g.keyBytesRandom(pad)
	if g.chance(0.5) {
		padFill(filler, byte(pad), 1+g.r.Intn(4))
	}
	full := append(append(append([]byte{}, pt...), filler...), byte(pad))
	return refCBCEncrypt(key, g.keyBytesRandom(16), full)
}

// executes ops[from:] (generated on the fly by next) on obj inside the current random source
func (c *Ctx) c10RunSeq(s *SuiteStat, g *Gen, idx int, key, rnd []byte, nOps int) (ops []cbcOp, results []callRes, bad bool) {
	e := descIdxFor(key)
	obj, _ := newCipher(e, key)
	var own [][]byte
	fail := func(class, desc, exp, act string) {
		if !bad {
			c.violate(Violation{Suite: s.Name, Kind: "property", Index: idx, Class: class, Desc: desc,
				Input: cbcSeqLine(key, rnd, ops), Expected: clip(exp), Actual: clip(act)})
		}
		bad = true
	}
	old := crand.Reader
	det := &detReader{buf: rnd, failAt: -1}
	crand.Reader = det
	defer func() { crand.Reader = old }()
	for j := 0; j < nOps; j++ {
		var op cbcOp
		switch k := g.r.Intn(10); {
		case k < 4 || j == 0:
			op = cbcOp{enc: true, data: g.bytes(g.pick(0, 1, 15, 16, 17, 31, 32, g.r.Intn(80))), what: "E"}
		case k < 6 && len(own) > 0:
			op = cbcOp{data: own[g.r.Intn(len(own))], what: "D-own"}
		case k < 8:
			op = cbcOp{data: g.peerCiphertext(key, g.bytes(g.r.Intn(60))), what: "D-peer"}
		case k < 9:
			base := g.peerCiphertext(key, g.bytes(g.r.Intn(60)))
			op = cbcOp{data: g.mutate(base), what: "D-tampered"}
		default:
			op = cbcOp{data: g.keyBytesRandom(g.r.Intn(100)), what: "D-garbage"}
		}
		ops = append(ops, op)
		setCase(cbcSeqLine(key, rnd, ops))
		if op.enc {
			r0, n0 := det.reads, len(det.served)
			res, ct := cbcEnc(obj, op.data)
			results = append(results, res)
			if res.kind != "ok" {
				fail("encrypt-fails:"+res.kind, fmt.Sprintf("Encrypt #%d in a call sequence failed", j), "ok", res.String())
				continue
			}
			own = append(own, ct)
			if class, desc, _ := c10EncryptLaws(key, op.data, ct, det.served[n0:], det.reads-r0); class != "" {
				fail(class, fmt.Sprintf("call #%d (Encrypt) of a sequence on one object: %s", j, desc), "C10 laws", res.String())
			}
		} else {
			res := cbcDec(obj, op.data)
			results = append(results, res)
			if want := refDecryptExpect(key, op.data); res != want {
				cl := "decrypt-differs-in-sequence"
				if res.kind == "panic" {
					cl = "panic:cbc-decrypt"
				}
				fail(cl, fmt.Sprintf("call #%d (Decrypt, %s) of a sequence on one object differs from textbook CBC decryption under the IV carried by the ciphertext", j, op.what), want.String(), res.String())
			}
		}
	}
	return
}

// (4b): IVs never repeat; no IV state kept in the object
func (c *Ctx) c10FreshIV(g *Gen, corr *[]corrCase) {
	s := c.suite("fresh-iv", "oracle",
		"per key size: (a) N >= 200 consecutive Encrypt calls on ONE object and N objects with the same key, real crypto/rand.Reader: all IVs pairwise distinct; (b) the same N calls on one object under per-call injected streams: IV = this call's draw; (c) Encrypt then Decrypt of a reference-built ciphertext with another IV, and of a peer object's ciphertext, on the same object; (d) random Encrypt/Decrypt sequences (own, peer, tampered, garbage ciphertexts) on one object under one injected stream, every result checked against stdlib CBC; non-trivial = every case (each involves >= 2 calls on one object); distinct by case text")
	sq := c.suite("call-sequences", "oracle",
		"(d) above: sequences of 2..40 calls; every Encrypt obeys the encrypt laws w.r.t. the octets served during that call, every Decrypt equals the textbook expectation; non-trivial = >= 2 Encrypt and >= 1 Decrypt; distinct by the cbc-seq line")
	idx := 0
	N := c.n(200, 3000)
	for e := 0; e < 3; e++ {
		key := g.keyBytesRandom(refEncrKeyLen[e])
		// (a)
		obj, _ := newCipher(e, key)
		seen := map[string]string{}
		pt := g.bytes(g.r.Intn(40))
		dup := func(iv []byte, who string) {
			idx++
			if prev, ok := seen[string(iv)]; ok {
				c.violate(Violation{Suite: s.Name, Kind: "property", Index: idx, Class: "iv-repeats",
					Desc:  "the same IV was used by two Encrypt calls (" + prev + " and " + who + ")",
					Input: fmt.Sprintf("cbc-iv-distinct %s %s", hx(key), hx(pt)), Expected: "pairwise distinct IVs", Actual: hx(iv)})
			}
			seen[string(iv)] = who
		}
		stop := false
		for i := 0; i < N && !stop; i++ {
			res, ct := cbcEnc(obj, pt)
			s.add(fmt.Sprintf("iv one-object key=%s call=%d", hx(key), i), true, "mode:one-object-real-rand")
			if res.kind != "ok" || len(ct) < 16 {
				c.violate(Violation{Suite: s.Name, Kind: "property", Index: idx, Class: "encrypt-fails:" + res.kind, Desc: "Encrypt failed", Input: cbcEncLine(key, nil, -1, pt), Expected: "ok", Actual: res.String()})
				break
			}
			before := len(c.rep.Violations)
			dup(ct[:16], fmt.Sprintf("call %d on one object", i))
			stop = len(c.rep.Violations) > before
			if d := cbcDec(obj, ct); d.String() != "ok "+hx(pt) {
				c.violate(Violation{Suite: s.Name, Kind: "property", Index: idx, Class: "inverse:" + d.kind,
					Desc: fmt.Sprintf("call %d on one object: Decrypt(Encrypt(p)) is not p", i), Input: cbcDecLine(key, ct), Expected: "ok " + hx(pt), Actual: clip(d.String())})
				stop = true
			}
		}
		for i := 0; i < N && !stop; i++ {
			o2, _ := newCipher(e, key)
			res, ct := cbcEnc(o2, pt)
			s.add(fmt.Sprintf("iv objects key=%s object=%d", hx(key), i), true, "mode:many-objects-real-rand")
			if res.kind != "ok" || len(ct) < 16 {
				break
			}
			before := len(c.rep.Violations)
			dup(ct[:16], fmt.Sprintf("object %d", i))
			stop = len(c.rep.Violations) > before
		}
		// (b)
		obj, _ = newCipher(e, key)
		for i := 0; i < N; i++ {
			idx++
			p := g.bytes(g.r.Intn(50))
			rnd := g.keyBytesRandom(48)
			var res callRes
			var ct []byte
			rd := withRand(rnd, -1, func() { res, ct = cbcEnc(obj, p) })
			line := fmt.Sprintf("call %d on one object: %s", i, cbcEncLine(key, rnd, -1, p))
			s.add(line, true, "mode:one-object-injected")
			if res.kind != "ok" {
				c.violate(Violation{Suite: s.Name, Kind: "property", Index: idx, Class: "encrypt-fails:" + res.kind, Desc: "Encrypt failed", Input: line, Expected: "ok", Actual: res.String()})
				break
			}
			if class, desc, _ := c10EncryptLaws(key, p, ct, rd.served, rd.reads); class != "" {
				c.violate(Violation{Suite: s.Name, Kind: "property", Index: idx, Class: class,
					Desc: fmt.Sprintf("Encrypt call %d on one object: %s", i, desc), Input: line, Expected: "C10 laws", Actual: clip(res.String())})
				break
			}
		}
		// (c)
		for i := 0; i < c.n(40, 1000); i++ {
			idx++
			obj, _ := newCipher(e, key)
			peer, _ := newCipher(e, key)
			p1, p2 := g.bytes(g.r.Intn(60)), g.bytes(g.r.Intn(60))
			other := g.peerCiphertext(key, p2)
			_, peerCT := cbcEnc(peer, p2)
			r1, _ := cbcEnc(obj, p1)
			d1 := cbcDec(obj, other)
			d2 := cbcDec(obj, peerCT)
			line := fmt.Sprintf("enc-then-dec key=%s E %s D %s D %s", hx(key), hx(p1), hx(other), hx(peerCT))
			s.add(line, true, "mode:enc-then-dec-other-iv")
			want := "ok " + hx(p2)
			if r1.kind != "ok" || d1.String() != want {
				c.violate(Violation{Suite: s.Name, Kind: "property", Index: idx, Class: "iv-state:" + d1.kind,
					Desc: "after an Encrypt, Decrypt of a ciphertext carrying a different IV on the same object is wrong", Input: cbcDecLine(key, other), Expected: want, Actual: clip(d1.String())})
				break
			}
			if d2.String() != want {
				c.violate(Violation{Suite: s.Name, Kind: "property", Index: idx, Class: "iv-state:" + d2.kind,
					Desc: "after an Encrypt, Decrypt of a peer object's ciphertext on the same object is wrong", Input: cbcDecLine(key, peerCT), Expected: want, Actual: clip(d2.String())})
				break
			}
		}
		// (d)
		for i := 0; i < c.n(40, 1500); i++ {
			idx++
			k := g.keyBytes(refEncrKeyLen[e])
			nOps := 2 + g.r.Intn(39)
			rnd := g.keyBytesRandom(32 * nOps)
			ops, results, bad := c.c10RunSeq(sq, g, idx, k, rnd, nOps)
			ne, nd := 0, 0
			for _, o := range ops {
				if o.enc {
					ne++
				} else {
					nd++
				}
			}
			line := cbcSeqLine(k, rnd, ops)
			nontr := ne >= 2 && nd >= 1
			sq.add(line, nontr, fmt.Sprintf("keylen:%d", len(k)), fmt.Sprintf("calls:%d", len(ops)/10*10))
			if corr != nil && len(line) < 30000 {
				*corr = append(*corr, corrCase{line: line, goRes: joinRes(results, " "), nontr: nontr})
			}
			if bad {
				break
			}
		}
	}
}

// a random source that fails at one read after delivering fewer octets than asked
type partialFailReader struct {
	buf                         []byte
	pos, reads, failAt, deliver int
}

func (r *partialFailReader) Read(p []byte) (int, error) {
	idx := r.reads
	r.reads++
	n := len(p)
	if idx == r.failAt {
		n = r.deliver
		if n >= len(p) {
			n = len(p) - 1
		}
		if n < 0 {
			n = 0
		}
	}
	for i := 0; i < n; i++ {
		p[i] = r.buf[r.pos%len(r.buf)]
		r.pos++
	}
	if idx == r.failAt {
		return n, errInjected
	}
	return n, nil
}

// (5): the random source fails at the padding draw / the IV draw
func (c *Ctx) c10RandFailure(g *Gen, corr *[]corrCase) {
	s := c.suite("rand-failure", "oracle",
		"per key size x plaintext lengths {0,1,14,15,16,17,31,32,100,4096, random}: crypto/rand.Reader replaced by a reader failing at read index 0 (padding draw) or 1 (IV draw), failing outright or after a short delivery; expected: error and nil ciphertext; failure index 2 (never reached): success; non-trivial = failure index 0 or 1; distinct by line")
	idx := 0
	for e := 0; e < 3; e++ {
		lens := []int{0, 1, 14, 15, 16, 17, 31, 32, 100, 4096}
		for i := 0; i < c.n(10, 300); i++ {
			lens = append(lens, g.r.Intn(600))
		}
		for _, n := range lens {
			key := g.keyBytes(refEncrKeyLen[e])
			pt := g.bytes(n)
			rnd := g.keyBytesRandom(48)
			for failAt := 0; failAt <= 2; failAt++ {
				for _, deliver := range []int{-1, 0, 1, 7, 15} {
					if deliver >= 0 && failAt == 2 {
						continue
					}
					idx++
					obj, _ := newCipher(e, key)
					line := cbcEncLine(key, rnd, failAt, pt)
					caseText := fmt.Sprintf("%s deliver=%d", line, deliver)
					setCase(caseText)
					var res callRes
					var ct []byte
					if deliver < 0 {
						withRand(rnd, failAt, func() { res, ct = cbcEnc(obj, pt) })
						if corr != nil && n <= 600 {
							*corr = append(*corr, corrCase{line: line, goRes: res.String(), nontr: res.kind == "ok" && n > 0, tags: []string{fmt.Sprintf("failAt:%d", failAt)}})
						}
					} else {
						old := crand.Reader
						crand.Reader = &partialFailReader{buf: rnd, failAt: failAt, deliver: deliver}
						res, ct = cbcEnc(obj, pt)
						crand.Reader = old
					}
					s.add(caseText, failAt < 2, fmt.Sprintf("failAt:%d", failAt), "outcome:"+res.kind, fmt.Sprintf("short-delivery:%v", deliver >= 0))
					if failAt == 2 {
						if res.kind != "ok" {
							c.violate(Violation{Suite: s.Name, Kind: "property", Index: idx, Class: "encrypt-fails:" + res.kind,
								Desc: "Encrypt failed although the random source fails only at a read it does not make", Input: line, Expected: "ok", Actual: res.String()})
						}
						continue
					}
					what := []string{"padding draw", "IV draw"}[failAt]
					if res.kind != "err" || ct != nil {
						c.violate(Violation{Suite: s.Name, Kind: "property", Index: idx, Class: "rand-failure:" + res.kind,
							Desc:  fmt.Sprintf("random source failure at the %s (short delivery %d) did not yield an error without ciphertext: %s", what, deliver, res.val),
							Input: line, Expected: "err, nil ciphertext", Actual: clip(fmt.Sprintf("%s ciphertext=%s", res.kind, hx(ct)))})
					}
				}
			}
		}
	}
}

// (6): key sizes
func (c *Ctx) c10KeySizes(g *Gen, corr *[]corrCase) {
	s := c.suite("key-sizes", "oracle",
		"every key length 0..64 (all-zero, all-ff, random content; nil for length 0) offered to each of the 3 descriptors: accepted iff the length equals the descriptor's GetKeyLength(); an accepted object must round-trip; non-trivial = every case; distinct by (descriptor, key)")
	idx := 0
	for e := 0; e < 3; e++ {
		want := encr.StrToType(encrNames[e]).GetKeyLength()
		if want != refEncrKeyLen[e] {
			c.violate(Violation{Suite: s.Name, Kind: "property", Class: "keylen-registry", Desc: "descriptor key length differs from the algorithm's", Input: encrNames[e], Expected: fmt.Sprint(refEncrKeyLen[e]), Actual: fmt.Sprint(want)})
		}
		for l := 0; l <= 64; l++ {
			for v := 0; v < 3; v++ {
				idx++
				key := make([]byte, l)
				switch v {
				case 1:
					for i := range key {
						key[i] = 0xff
					}
				case 2:
					key = g.keyBytesRandom(l)
				}
				line := fmt.Sprintf("newcrypto %d %s", e, hx(key))
				var obj ikeCrypto.IKECrypto
				var res callRes
				if l == 0 && v == 1 {
					res = guard(func() (string, error) {
						var err error
						obj, err = encr.StrToType(encrNames[e]).NewCrypto(nil)
						return "", err
					})
				} else {
					obj, res = newCipher(e, key)
				}
				s.add(line, true, fmt.Sprintf("descriptor:%d", e), "outcome:"+res.kind)
				*corr = append(*corr, corrCase{line: line, goRes: okWord(res), nontr: res.kind == "ok"})
				exp := "err"
				if l == refEncrKeyLen[e] {
					exp = "ok"
				}
				if res.kind != exp || (exp == "err" && obj != nil) {
					c.violate(Violation{Suite: s.Name, Kind: "property", Index: idx, Class: "key-size:" + res.kind,
						Desc: fmt.Sprintf("%s: key of %d octets: NewCrypto returned %s (object non-nil: %v) %s", encrNames[e], l, res.kind, obj != nil, res.val), Input: line, Expected: exp, Actual: okWord(res)})
					continue
				}
				if exp == "ok" {
					pt := g.bytes(g.r.Intn(40))
					_, ct := cbcEnc(obj, pt)
					if d := cbcDec(obj, ct); d.String() != "ok "+hx(pt) {
						c.violate(Violation{Suite: s.Name, Kind: "property", Index: idx, Class: "inverse:" + d.kind, Desc: "accepted key does not round-trip", Input: line, Expected: "ok " + hx(pt), Actual: clip(d.String())})
					}
				}
			}
		}
	}
}

func (c *Ctx) c10DecryptCase(s *SuiteStat, idx int, obj ikeCrypto.IKECrypto, key, ct []byte, tags ...string) callRes {
	line := cbcDecLine(key, ct)
	setCase(line)
	r := cbcDec(obj, ct)
	want := refDecryptExpect(key, ct)
	nontr := len(ct) >= 32 && len(ct)%16 == 0
	s.add(line, nontr, append(tags, "outcome:"+r.kind)...)
	if r == want {
		return r
	}
	class, desc := "decrypt-wrong-plaintext", "Decrypt returns something else than the textbook plaintext with (pad-length octet + 1) octets stripped"
	switch {
	case r.kind == "panic":
		class, desc = "panic:cbc-decrypt", "IKECrypto.Decrypt panicked: "+r.val
	case want.kind == "err" && r.kind == "ok":
		class, desc = "decrypt-accepts-bad", "ciphertext that is too short, misaligned or carries an impossible pad length was accepted"
	case want.kind == "ok" && r.kind == "err":
		class, desc = "decrypt-rejects-good", "well-formed ciphertext was refused"
	}
	c.violate(Violation{Suite: s.Name, Kind: "property", Index: idx, Class: class, Desc: desc, Input: line, Expected: clip(want.String()), Actual: clip(r.String())})
	return r
}

// (7): Decrypt on arbitrary ciphertext
func (c *Ctx) c10Decrypt(g *Gen, corr *[]corrCase) {
	s := c.suite("decrypt-arbitrary", "oracle",
		"per key size: every ciphertext length 0..96 and bodies of 256/272/1024/4096 octets; block-aligned lengths >= 32: all 256 values of the recovered pad-length octet (ciphertext built by stdlib CBC encryption of a chosen plaintext under a random IV); other lengths: random contents incl. +-1 around alignment up to 4113; expected by an independent stdlib reference: error iff len < 32 or (len-16)%16 != 0 or pad octet + 1 > len-16, else the first len-16-pad-1 octets of the stdlib decryption; never a panic; non-trivial = block-aligned input >= 32 octets; distinct by (key, ciphertext)")
	idx := 0
	for e := 0; e < 3; e++ {
		key := g.keyBytes(refEncrKeyLen[e])
		if e == 1 {
			key = g.keyBytesRandom(refEncrKeyLen[e])
		}
		obj, _ := newCipher(e, key)
		var lens []int
		for l := 0; l <= 96; l++ {
			lens = append(lens, l)
		}
		lens = append(lens, 16+256, 16+272, 16+1024, 16+4096, 16+255, 16+257, 4111, 4113)
		for _, l := range lens {
			aligned := l >= 32 && (l-16)%16 == 0
			variants := c.n(4, 40)
			if aligned {
				variants = 256
			}
			for v := 0; v < variants; v++ {
				idx++
				var ct []byte
				if aligned {
					pt := g.keyBytesRandom(l - 16)
					pt[len(pt)-1] = byte(v)
					if v < len(pt) { // the v padding octets ahead of the pad-length octet: random, or one of the usual conventions
						padFill(pt[len(pt)-1-v:len(pt)-1], byte(v), idx)
					}
					ct = refCBCEncrypt(key, g.keyBytesRandom(16), pt)
				} else {
					ct = g.bytes(l)
				}
				r := c.c10DecryptCase(s, idx, obj, key, ct, fmt.Sprintf("aligned:%v", aligned), fmt.Sprintf("keylen:%d", len(key)))
				if !aligned || v%8 == 0 || v >= 253 {
					if l <= 1100 || v%64 == 0 || v == 255 {
						*corr = append(*corr, corrCase{line: cbcDecLine(key, ct), goRes: r.String(), nontr: aligned})
					}
				}
			}
		}
	}
}

// ===========================================================================
// C17

type saOp struct {
	kind       byte // 'P' protect | 'U' unprotect | 'C' derive Child SA
	role       message.Role
	rnd        []byte
	sx         *Sx
	withHdr    bool
	bs         []byte
	what       string // protect | genuine | own-loop | tamper | truncate | garbage | crosskey | reflect | reflect-own | child
	genuine    bool   // U: a genuine message for this role: must be accepted
	mustErr    bool   // U: altered / foreign message still presenting SK: must be rejected
	want       string // U genuine: rendering of the original message
	eIdx, iIdx int
	nonce      []byte
}

func (o *saOp) text() string {
	switch o.kind {
	case 'P':
		return fmt.Sprintf("(P %s %s %s)", roleName(o.role), hx(o.rnd), o.sx.String())
	case 'U':
		h := 0
		if o.withHdr {
			h = 1
		}
		return fmt.Sprintf("(U %s %d %s)", roleName(o.role), h, hx(o.bs))
	}
	return fmt.Sprintf("(C %d %d %s)", o.eIdx, o.iIdx, hx(o.nonce))
}

func saOpsLine(k *saKeys, ops []*saOp) string {
	var sb strings.Builder
	sb.WriteString("saops " + k.line())
	for _, o := range ops {
		sb.WriteByte(' ')
		sb.WriteString(o.text())
	}
	return sb.String()
}

func deriveChild(sa *security.IKESAKey, eIdx, iIdx int, nonce []byte) callRes {
	in := exact(nonce)
	return guard(func() (string, error) {
		ch := &security.ChildSAKey{EncrKInfo: encr.StrToKType(encrNames[eIdx])}
		if iIdx >= 0 {
			ch.IntegKInfo = integ.StrToKType(integNames[iIdx])
		}
		if err := ch.GenerateKeyForChildSA(sa, in); err != nil {
			return "", err
		}
		return fmt.Sprintf("%s %s %s %s", hx(ch.InitiatorToResponderEncryptionKey), hx(ch.InitiatorToResponderIntegrityKey),
			hx(ch.ResponderToInitiatorEncryptionKey), hx(ch.ResponderToInitiatorIntegrityKey)), nil
	})
}

func runSaOp(sa *security.IKESAKey, o *saOp) callRes {
	switch o.kind {
	case 'P':
		r, _ := protect(sa, buildMsg(o.sx), o.role, o.rnd, -1)
		return r
	case 'U':
		return unprotect(sa, o.bs, o.role, o.withHdr)
	}
	return deriveChild(sa, o.eIdx, o.iIdx, o.nonce)
}

// RFC 7296 s2.13 prf+ and s2.17 KEYMAT split, standard library only
func refPrfPlus(p int, key, seed []byte, n int) []byte {
	var out, t []byte
	for i := 1; len(out) < n; i++ {
		m := hmac.New(refHash(p), key)
		m.Write(t)
		m.Write(seed)
		m.Write([]byte{byte(i)})
		t = m.Sum(nil)
		out = append(out, t...)
	}
	return out[:n]
}

func refChildKeys(k *saKeys, eIdx, iIdx int, nonce []byte) string {
	el, il := refEncrKeyLen[eIdx], 0
	if iIdx >= 0 {
		il = refIntegKeyLen[iIdx]
	}
	ks := refPrfPlus(k.st.p, k.d, nonce, 2*(el+il))
	return fmt.Sprintf("%s %s %s %s", hx(ks[:el]), hx(ks[el:el+il]), hx(ks[el+il:2*el+il]), hx(ks[2*el+il:]))
}

func (g *Gen) smallMsg() *Sx {
	if g.chance(0.06) {
		return L(A("msg"), g.header(), L())
	}
	for {
		if s := g.protMsg(); len(s.String()) < 450 {
			return s
		}
	}
}

type ownMsg struct {
	bs   []byte
	role message.Role
	want string
}

func presentsSK(b []byte) bool { return len(b) >= 28 && b[16] == 46 }

// the message the long-lived object accepted or produced last, with the role that receives it
type lastMsg struct {
	bs   []byte
	recv message.Role
}

// protect-heavy histories: with probability saProtectBias the next operation is a protect by saBiasRole
var saProtectBias float64
var saBiasRole message.Role

func (g *Gen) genSaOp(k *saKeys, own []ownMsg, last *lastMsg) *saOp {
	role := message.Role(g.chance(0.5))
	if saProtectBias > 0 && g.chance(saProtectBias) {
		return &saOp{kind: 'P', role: saBiasRole, rnd: g.keyBytesRandom(32), sx: g.smallMsg(), what: "protect"}
	}
	if last != nil && g.chance(0.12) {
		// a forgery of the message that was processed LAST: octets before the checksum altered (header fields,
		// IV, ciphertext), the checksum itself kept as it was
		icv := refIntegOutLen[k.st.i]
		if len(last.bs) > 28+icv {
			op := &saOp{kind: 'U', role: last.recv, withHdr: g.chance(0.5), what: "forge-last", bs: append([]byte{}, last.bs...)}
			cands := []int{20 + g.r.Intn(4), 19, 18, g.r.Intn(16)}
			if n := len(op.bs) - icv; n > 32 {
				cands = append(cands, 32+g.r.Intn(n-32))
			}
			op.bs[cands[g.r.Intn(len(cands))]] ^= 1 << uint(g.r.Intn(8))
			op.mustErr = presentsSK(op.bs)
			return op
		}
	}
	if g.chance(0.06) {
		bs, what := g.authMalformed(k, role)
		return &saOp{kind: 'U', role: !role, withHdr: g.chance(0.5), bs: bs, what: "auth-" + what}
	}
	peerMsg := func(keys *saKeys, sender message.Role) ([]byte, string) {
		for tries := 0; ; {
			retryCap(&tries, "EncodeEncrypt of a small message")
			sx := g.smallMsg()
			p, _ := protect(newSA(keys), buildMsg(sx), sender, g.keyBytesRandom(32), -1)
			if p.kind == "ok" {
				return unhx(p.val), renderMsg(buildMsg(sx)).String()
			}
		}
	}
	x := g.r.Intn(100)
	switch {
	case x < 26:
		return &saOp{kind: 'P', role: role, rnd: g.keyBytesRandom(32), sx: g.smallMsg(), what: "protect"}
	case x < 46: // a fresh peer sends as `role`; the long-lived object receives as the opposite role
		bs, want := peerMsg(k, role)
		return &saOp{kind: 'U', role: !role, withHdr: g.chance(0.5), bs: bs, what: "genuine", genuine: true, want: want}
	case x < 52 && len(own) > 0: // its own earlier output, looped back to the opposite role
		o := own[g.r.Intn(len(own))]
		return &saOp{kind: 'U', role: !o.role, withHdr: g.chance(0.5), bs: o.bs, what: "own-loop", genuine: true, want: o.want}
	case x < 86:
		base, _ := peerMsg(k, role)
		op := &saOp{kind: 'U', role: !role, withHdr: g.chance(0.5)}
		switch g.r.Intn(7) {
		case 0:
			op.bs, op.what = append([]byte{}, base...), "tamper"
			op.bs[g.r.Intn(len(base))] ^= 1 << uint(g.r.Intn(8))
		case 1:
			op.what = "tamper"
			for op.bs = g.mutate(base); bytes.Equal(op.bs, base); {
				op.bs = g.mutate(base)
			}
		case 2:
			op.bs, op.what = base[:g.r.Intn(len(base))], "truncate"
		case 3:
			op.what = "garbage"
			if g.chance(0.3) {
				op.bs = g.displacedSK(k, role)
			} else if g.chance(0.5) {
				op.bs = g.bytes(g.r.Intn(120))
			} else { // header + SK payload with an arbitrary body
				l := g.r.Intn(90)
				op.bs = append(append([]byte{}, base[:28]...), base[28], 0, byte((4+l)>>8), byte(4+l))
				op.bs = append(op.bs, g.bytes(l)...)
				op.bs[24], op.bs[25], op.bs[26], op.bs[27] = 0, 0, byte(len(op.bs)>>8), byte(len(op.bs))
			}
		case 4:
			k2 := &saKeys{st: k.st, d: g.keyBytesRandom(len(k.d)), ai: g.keyBytesRandom(len(k.ai)), ar: g.keyBytesRandom(len(k.ar)),
				ei: g.keyBytesRandom(len(k.ei)), er: g.keyBytesRandom(len(k.er)), pi: g.keyBytesRandom(len(k.pi)), pr: g.keyBytesRandom(len(k.pr))}
			op.bs, _ = peerMsg(k2, role)
			op.what = "crosskey"
		case 5: // presented to the role that produced it
			op.bs, op.role, op.what = base, role, "reflect"
		default:
			if len(own) > 0 {
				o := own[g.r.Intn(len(own))]
				op.bs, op.role, op.what = o.bs, o.role, "reflect-own"
			} else {
				op.bs, op.role, op.what = base, role, "reflect"
			}
		}
		if len(op.bs) < 28 {
			op.withHdr = false
		}
		op.mustErr = presentsSK(op.bs)
		return op
	}
	return &saOp{kind: 'C', eIdx: g.r.Intn(3), iIdx: g.r.Intn(4) - 1, nonce: g.bytes(g.pick(0, 1, 16, 32, 64, g.r.Intn(100))), what: "child"}
}

// checks one operation's outcome on the long-lived object against a fresh object and the property's clauses;
// returns a violation class ("" = fine)
func c17Judge(k *saKeys, o *saOp, long callRes) (class, desc, exp string) {
	fresh := runSaOp(newSA(k), o)
	if long.kind == "panic" {
		return "panic:" + o.what, "operation on the long-lived SA object panicked: " + long.val, fresh.String()
	}
	if long != fresh {
		return "history-dependent:" + o.what, "the operation's outcome on the long-lived SA object differs from its outcome on a newly built SA object holding the same keys", "fresh: " + fresh.String()
	}
	switch {
	case o.kind == 'P':
		if long.kind != "ok" {
			return "protect-fails", "EncodeEncrypt failed on the long-lived object", "ok"
		}
		want := "ok " + renderMsg(buildMsg(o.sx)).String()
		for _, withHdr := range []bool{false, true} {
			if r := unprotect(newSA(k), unhx(long.val), !o.role, withHdr); r.String() != want {
				return "protected-not-accepted:" + r.kind, fmt.Sprintf("message protected by the long-lived object is not accepted by a fresh peer (header pre-parsed=%v)", withHdr), want
			}
		}
	case o.kind == 'U' && o.genuine:
		if long.String() != "ok "+o.want {
			return "genuine-rejected:" + long.kind, "genuine message (" + o.what + ") is not accepted / not decoded to the original by the long-lived object", "ok " + o.want
		}
	case o.kind == 'U' && o.mustErr:
		if long.kind != "err" {
			return "forged-accepted:" + o.what, "forged message (" + o.what + ") was accepted by the long-lived object", "err"
		}
	case o.kind == 'C':
		if want := "ok " + refChildKeys(k, o.eIdx, o.iIdx, o.nonce); long.String() != want {
			return "child-keys-wrong", "Child SA keys differ from prf+(SK_d, nonce) computed with the standard library", want
		}
	}
	return "", "", ""
}

// smallest suffix window of ops[:j+1] that still shows the failure of op j on a new long-lived object
func c17Shrink(k *saKeys, ops []*saOp, j int) []*saOp {
	for w := 0; w <= j; w = w*2 + 1 {
		win := ops[j-w : j+1]
		sa := newSA(k)
		var last callRes
		for _, o := range win {
			last = runSaOp(sa, o)
		}
		if class, _, _ := c17Judge(k, ops[j], last); class != "" {
			return win
		}
	}
	return ops[:j+1]
}

func saKeyFields(sa *security.IKESAKey) string {
	return strings.Join([]string{hx(sa.SK_d), hx(sa.SK_ai), hx(sa.SK_ar), hx(sa.SK_ei), hx(sa.SK_er), hx(sa.SK_pi), hx(sa.SK_pr)}, " ")
}

func (c *Ctx) c17Sequence(s *SuiteStat, g *Gen, k *saKeys, n, idx int, corr *[]corrCase) {
	sa := newSA(k)
	keys0 := saKeyFields(sa)
	objs0 := fmt.Sprintf("%p %p %p %p %p %p %p %p %p %p %p", sa.Prf_d, sa.Integ_i, sa.Integ_r, sa.Encr_i, sa.Encr_r, sa.Prf_i, sa.Prf_r, sa.EncrInfo, sa.IntegInfo, sa.PrfInfo, sa.DhInfo)
	var ops []*saOp
	var results []callRes
	var own []ownMsg
	var last *lastMsg
	corrN, corrLen := 0, len("saops "+k.line())
	for j := 0; j < n; j++ {
		o := g.genSaOp(k, own, last)
		ops = append(ops, o)
		long := runSaOp(sa, o)
		results = append(results, long)
		if long.kind == "ok" && o.kind == 'P' {
			last = &lastMsg{bs: unhx(long.val), recv: !o.role}
		} else if long.kind == "ok" && o.kind == 'U' {
			last = &lastMsg{bs: o.bs, recv: o.role}
		}
		if t := len(o.text()) + 1; corrN == j && j < 64 && corrLen+t < 28000 {
			corrN, corrLen = j+1, corrLen+t
		}
		s.add(fmt.Sprintf("seq %d step %d %s %s", idx, j, k.line(), o.text()), j > 0, "op:"+o.what, "suite:"+k.st.String(), "outcome:"+long.kind)
		if o.kind == 'P' && long.kind == "ok" && len(own) < 16 {
			own = append(own, ownMsg{bs: unhx(long.val), role: o.role, want: renderMsg(buildMsg(o.sx)).String()})
		}
		if class, desc, exp := c17Judge(k, o, long); class != "" {
			win := c17Shrink(k, ops, j)
			c.violate(Violation{Suite: s.Name, Kind: "property", Index: idx, Class: class,
				Desc:  fmt.Sprintf("step %d of a history of %d operations on one IKESAKey (reported: the shortest suffix of the history reproducing it, %d operations): %s", j, n, len(win), desc),
				Input: saOpsLine(k, win), Expected: clip(exp), Actual: clip("long-lived: " + long.String())})
			break
		}
	}
	if now := saKeyFields(sa); now != keys0 {
		c.violate(Violation{Suite: s.Name, Kind: "property", Index: idx, Class: "keys-changed", Desc: "exported key fields SK_* of the long-lived object changed during the history",
			Input: saOpsLine(k, ops[:min(len(ops), 64)]), Expected: keys0, Actual: now})
	}
	if now := fmt.Sprintf("%p %p %p %p %p %p %p %p %p %p %p", sa.Prf_d, sa.Integ_i, sa.Integ_r, sa.Encr_i, sa.Encr_r, sa.Prf_i, sa.Prf_r, sa.EncrInfo, sa.IntegInfo, sa.PrfInfo, sa.DhInfo); now != objs0 {
		c.violate(Violation{Suite: s.Name, Kind: "property", Index: idx, Class: "objects-replaced", Desc: "security objects / descriptors of the long-lived IKESAKey were replaced during the history",
			Input: saOpsLine(k, ops[:min(len(ops), 64)]), Expected: objs0, Actual: now})
	}
	if corr != nil && corrN > 0 && corrN <= len(results) {
		kinds := map[byte]bool{}
		for _, o := range ops[:corrN] {
			kinds[o.kind] = true
		}
		*corr = append(*corr, corrCase{line: saOpsLine(k, ops[:corrN]), goRes: joinRes(results[:corrN], " | "),
			nontr: corrN >= 2 && len(kinds) >= 2, tags: []string{fmt.Sprintf("ops:%d", corrN/8*8), "suite:" + k.st.String()}})
	}
}

func propC17(c *Ctx) {
	if c.replay != nil {
		c.replayOps()
		return
	}
	g := NewGen(c.seed)
	s := c.suite("sa-histories", "oracle",
		"random histories (quick: up to 64, thorough: up to 2000 operations; plus one history per suite of 160 / 3000 operations three quarters of which are protections by one and the same role) on ONE *security.IKESAKey per history, all 9 suites, over {protect as initiator / responder (injected random octets), unprotect a genuine message of a fresh peer or its own earlier output (both header modes), unprotect tampered / truncated / garbage / cross-key / reflected input, a forgery of the message processed last that keeps its checksum, input with a CORRECT checksum over a malformed encrypted part, derive a Child SA (3 encr x {none, 3 integ})}; after every step the same operation with the same inputs on a FRESH object must give the identical outcome; protected messages must be accepted by a fresh peer, genuine ones accepted, forged ones presenting SK rejected, Child SA keys = stdlib prf+; SK_* fields and object identities unchanged at the end; one evaluation = one step; non-trivial = step >= 1 (the object has a history); distinct by (history, step)")
	var corr []corrCase
	lens := []int{64, 64, 64, 64, 64, 64, 48, 33, 17, 9, 4, 2}
	if c.thorough() {
		lens = []int{2000, 2000, 2000, 2000, 1000, 1000, 400, 400, 64, 64, 64, 64, 64, 64, 64, 64, 64, 64, 64, 64, 17, 5, 2}
	}
	idx := 0
	for si, st := range allSuites() {
		for _, n := range lens {
			idx++
			c.c17Sequence(s, g, g.saKeys(st), n, idx, &corr)
		}
		// one history per suite in which one role protects most of the time (many uses of the same cipher / integrity
		// object in a row)
		idx++
		saProtectBias, saBiasRole = 0.75, message.Role(si%2 == 0)
		c.c17Sequence(s, g, g.saKeys(st), c.n(160, 3000), idx, &corr)
		saProtectBias = 0
	}
	c.c17ManyCalls(g)
	sc := c.suite("saops-model-vs-impl", "correspondence",
		"the first <= 64 operations (line <= 28 KB) of every history: outcomes of the Go long-lived object, op by op, = the Lean model's saRun threading one SAKey state (protect / unprotect of Ike.lean, childKeys); non-trivial = >= 2 operations of >= 2 kinds")
	c.correspond(sc, corr)
}

// ===========================================================================
// C18: run the race-detector program

func harnessSrcDir() string {
	var cands []string
	if d := os.Getenv("VERIF_HARNESS_SRC"); d != "" {
		cands = append(cands, d)
	}
	if _, file, _, ok := runtime.Caller(0); ok {
		cands = append(cands, filepath.Dir(file))
	}
	if exe, err := os.Executable(); err == nil {
		cands = append(cands, filepath.Join(filepath.Dir(exe), "..", "harness"), filepath.Join(filepath.Dir(exe), "harness"))
	}
	if wd, err := os.Getwd(); err == nil {
		cands = append(cands, wd, filepath.Join(wd, "harness"))
	}
	for _, d := range cands {
		if _, err := os.Stat(filepath.Join(d, "racecheck", "main.go")); err == nil {
			return d
		}
	}
	return ""
}

func goEnv(extra ...string) []string {
	env := os.Environ()
	set := func(kv string) {
		k := kv[:strings.Index(kv, "=")+1]
		for i, e := range env {
			if strings.HasPrefix(e, k) {
				env[i] = kv
				return
			}
		}
		env = append(env, kv)
	}
	for _, kv := range append([]string{"GOFLAGS=-mod=mod", "GOPROXY=off", "GOSUMDB=off", "GOTOOLCHAIN=local", "CGO_ENABLED=1"}, extra...) {
		set(kv)
	}
	return env
}

type raceCfg struct {
	procs, n, steps int
	seed            int64
	cold            bool // the goroutines make the first calls into the library of the process
	goreader        bool // crypto/rand.Reader replaced by a source written in Go (its writes are visible to the race detector)
}

func (r raceCfg) String() string {
	s := fmt.Sprintf("racecheck gomaxprocs=%d goroutines=%d steps=%d seed=%d", r.procs, r.n, r.steps, r.seed)
	if r.cold {
		s += " cold"
	}
	if r.goreader {
		s += " goreader"
	}
	return s
}

func runCmd(timeout time.Duration, dir string, env []string, name string, args ...string) (out string, code int, err error) {
	cmd := exec.Command(name, args...)
	cmd.Dir, cmd.Env = dir, env
	var buf bytes.Buffer
	cmd.Stdout, cmd.Stderr = &buf, &buf
	if err = cmd.Start(); err != nil {
		return "", -1, err
	}
	done := make(chan error, 1)
	go func() { done <- cmd.Wait() }()
	select {
	case err = <-done:
	case <-time.After(timeout):
		cmd.Process.Kill()
		<-done
		return buf.String(), -2, fmt.Errorf("timeout after %v", timeout)
	}
	if ee, ok := err.(*exec.ExitError); ok {
		return buf.String(), ee.ExitCode(), nil
	}
	return buf.String(), 0, err
}

func (c *Ctx) c18Run(s *SuiteStat, bin string, cfg raceCfg, idx int) {
	out, code, err := runCmd(5*time.Minute, "", goEnv(fmt.Sprintf("GOMAXPROCS=%d", cfg.procs), "GORACE=exitcode=66 halt_on_error=1 atexit_sleep_ms=20"),
		bin, append([]string{"-seed", strconv.FormatInt(cfg.seed, 10), "-n", strconv.Itoa(cfg.n), "-steps", strconv.Itoa(cfg.steps)}, append(map[bool][]string{true: {"-cold"}, false: nil}[cfg.cold], map[bool][]string{true: {"-goreader"}, false: nil}[cfg.goreader]...)...)...)
	ops := 0
	race, okLine := false, false
	var diffs []string
	for _, l := range strings.Split(out, "\n") {
		switch {
		case strings.HasPrefix(l, "DIFF "):
			diffs = append(diffs, l)
		case l == "RACE" || strings.Contains(l, "WARNING: DATA RACE"):
			race = true
		case strings.HasPrefix(l, "PANIC "):
			// identical panic alone and concurrently: not an interference; panics of the codec are C04 / C12's subject
			if s.Dist["same-panic-alone-and-concurrently"] == 0 {
				c.note("racecheck (%s): %s", cfg.String(), clip(l))
			}
			s.Dist["same-panic-alone-and-concurrently"]++
		case strings.HasPrefix(l, "OK "):
			okLine = true
			fmt.Sscanf(l, "OK ops=%d", &ops)
		}
	}
	s.add(cfg.String(), true, fmt.Sprintf("gomaxprocs:%d", cfg.procs), fmt.Sprintf("goroutines:%d", cfg.n))
	s.Dist["operations-run-concurrently"] += ops
	tail := out
	if len(tail) > 6000 {
		tail = tail[:6000] + "..."
	}
	switch {
	case race || code == 66:
		c.violate(Violation{Suite: s.Name, Kind: "property", Index: idx, Class: "data-race", Desc: "the Go race detector reported a data race while independent SAs / messages were processed concurrently",
			Input: cfg.String(), Expected: "no race report", Actual: tail})
	case len(diffs) > 0:
		c.violate(Violation{Suite: s.Name, Kind: "property", Index: idx, Class: "result-differs", Desc: "an operation returned something else when run concurrently than when run alone: " + diffs[0],
			Input: cfg.String(), Expected: "per-goroutine transcript = sequential transcript", Actual: strings.Join(diffs[:min(len(diffs), 10)], "\n")})
	case err != nil || code != 0 || !okLine:
		c.violate(Violation{Suite: s.Name, Kind: "property", Index: idx, Class: "racecheck-crash", Desc: fmt.Sprintf("the concurrent run did not complete (exit %d, %v)", code, err),
			Input: cfg.String(), Expected: "exit 0 and an OK line", Actual: tail})
	}
}

func (c *Ctx) c18Configs() []raceCfg {
	if c.replay != nil {
		var r raceCfg
		if n, _ := fmt.Sscanf(c.replay.Input, "racecheck gomaxprocs=%d goroutines=%d steps=%d seed=%d", &r.procs, &r.n, &r.steps, &r.seed); n == 4 {
			r.cold = strings.Contains(c.replay.Input, " cold")
			r.goreader = strings.Contains(c.replay.Input, " goreader")
			return []raceCfg{r}
		}
		return nil
	}
	var out []raceCfg
	if !c.thorough() {
		return []raceCfg{{2, 2, 400, c.seed, false, false}, {4, 8, 250, c.seed + 1, false, false}, {16, 64, 60, c.seed + 2, false, false}, {2, 64, 25, c.seed + 3, false, false}, {16, 2, 400, c.seed + 4, false, false}, {4, 64, 40, c.seed + 5, false, false},
			{16, 16, 6, c.seed + 6, true, false}, {16, 64, 3, c.seed + 7, true, false}, {4, 8, 6, c.seed + 8, true, false},
			{16, 16, 120, c.seed + 9, false, true}, {4, 64, 40, c.seed + 10, false, true}, {16, 32, 5, c.seed + 11, true, true}}
	}
	for rep := 0; rep < 4; rep++ {
		for _, p := range []int{2, 4, 16} {
			for _, n := range []int{2, 8, 64} {
				out = append(out, raceCfg{p, n, 20000 / (n + 6), c.seed + int64(len(out)), false, rep == 3})
			}
		}
	}
	for rep := 0; rep < 12; rep++ {
		out = append(out, raceCfg{[]int{16, 4, 2}[rep%3], []int{64, 16, 8, 32}[rep%4], 3 + rep%4, c.seed + int64(len(out)), true, rep%2 == 1})
	}
	return out
}

func propC18(c *Ctx) {
	s := c.suite("race-detector", "oracle",
		"supporting evidence (the proof part is the footprint / non-interference theorems): harness/racecheck built with -race; GOMAXPROCS in {2,4,16} x N in {2,8,64} goroutines (quick: 4 of the combinations), each goroutine with its own seed, SA key objects and messages runs a random sequence over {Encode, Decode, EncodeEncrypt, DecodeDecrypt, GenerateKeyForIKESA, GenerateKeyForChildSA, DH public value / shared key (own values, and peer values as they may arrive on the wire: any length, 0, 1, all ones, >= p), transform mapping of all registries, error paths (refused EAP-AKA' packets with attributes the library has no name for, GetAttr / SetAttr refusals, undecodable datagrams through Decode and DecodeDecrypt, unsupported transforms through every registry, keys of wrong size), EAP marshal / unmarshal / AT_MAC / PRF', GenerateRandomNumber / Uint8, decoding ONE shared read-only datagram}; the per-goroutine transcript must equal the transcript of the same sequence run alone beforehand in the same process; plus runs in which crypto/rand.Reader is a concurrency-safe source written in Go, so that the race detector sees every place the library lets the source write to (3 quick, a quarter of the thorough runs), and cold-start runs (4 in the quick tier, 12 in the thorough tier) in which the goroutines make the very first calls into the library of a new process, all at once, and the solo runs follow; any race report is a violation; one evaluation = one (GOMAXPROCS, N, seed) run; non-trivial = every run")
	src := harnessSrcDir()
	if src == "" {
		c.violate(Violation{Suite: s.Name, Kind: "correspondence", Class: "race-build-failed", Desc: "cannot locate harness/racecheck/main.go (set VERIF_HARNESS_SRC)", Input: "go build -race ./racecheck"})
		return
	}
	bin := filepath.Join(os.TempDir(), fmt.Sprintf("ikeverif-racecheck-%d", os.Getpid()))
	defer os.Remove(bin)
	t0 := time.Now()
	out, code, err := runCmd(8*time.Minute, src, goEnv(), "go", "build", "-race", "-tags", "verif", "-o", bin, "./racecheck")
	if err != nil || code != 0 {
		c.violate(Violation{Suite: s.Name, Kind: "correspondence", Class: "race-build-failed", Desc: fmt.Sprintf("go build -race ./racecheck failed (exit %d, %v): the race oracle did not run", code, err),
			Input: "go build -race -o " + bin + " ./racecheck (in " + src + ")", Expected: "build succeeds", Actual: clip(out)})
		return
	}
	c.note("racecheck built with -race in %.1f s from %s", time.Since(t0).Seconds(), src)
	// the detection pipeline itself: a deliberate race must be reported with exit code 66
	out, code, _ = runCmd(time.Minute, "", goEnv("GOMAXPROCS=4", "GORACE=exitcode=66 halt_on_error=1 atexit_sleep_ms=20"), bin, "-selftest")
	if code != 66 || !strings.Contains(out, "RACE") {
		c.violate(Violation{Suite: s.Name, Kind: "correspondence", Class: "race-detector-inert", Desc: "a deliberate data race in the self-test was not reported: the race oracle is not effective",
			Input: "racecheck -selftest", Expected: "exit 66 and a RACE line", Actual: clip(fmt.Sprintf("exit %d: %s", code, out))})
		return
	}
	// negative control: the same program with ONE pair of SA objects shared by all goroutines (outside the
	// property's precondition) must make the detector fire inside the library's code
	out, code, _ = runCmd(time.Minute, "", goEnv("GOMAXPROCS=4", "GORACE=exitcode=66 halt_on_error=1 atexit_sleep_ms=20"), bin, "-misuse", "-n", "8", "-steps", "200", "-seed", "1")
	if code != 66 || !strings.Contains(out, "RACE") {
		c.violate(Violation{Suite: s.Name, Kind: "correspondence", Class: "race-detector-inert", Desc: "negative control: goroutines sharing one IKESAKey object did not produce a race report: the library's code is not covered by the detector",
			Input: "racecheck -misuse -n 8 -steps 200", Expected: "exit 66 and a RACE line", Actual: clip(fmt.Sprintf("exit %d: %s", code, out))})
		return
	}
	c.note("race oracle self-tests passed: deliberate race reported; shared-SA negative control reported a race in library code")
	for i, cfg := range c.c18Configs() {
		c.c18Run(s, bin, cfg, i)
	}
}

// ===========================================================================
// replay of recorded violations of C10 / C17 (Input = an operation line)

func parseOpsTail(rest string) []*Sx {
	sx, err := ParseSx("(" + rest + ")")
	if err != nil {
		return nil
	}
	return sx.List
}

func (c *Ctx) replayOps() {
	s := c.suite("replay", "oracle", "replay of one recorded case")
	in := c.replay.Input
	if i := strings.Index(in, "cbc-encrypt "); i > 0 { // "call N on one object: cbc-encrypt ..."
		in = in[i:]
	}
	f := strings.Fields(in)
	if len(f) == 0 {
		return
	}
	g := NewGen(c.seed)
	switch f[0] {
	case "cbc-decrypt":
		key, ct := unhx(f[1]), unhx(f[2])
		if obj, r := newCipher(descIdxFor(key), key); r.kind == "ok" {
			if strings.HasPrefix(c.replay.Class, "iv-state") || strings.HasPrefix(c.replay.Class, "decrypt-differs-in-sequence") {
				cbcEnc(obj, g.bytes(20)) // the recorded Decrypt followed an Encrypt on the same object
			}
			c.c10DecryptCase(s, 0, obj, key, ct)
		}
	case "cbc-encrypt":
		key, rnd, pt := unhx(f[1]), unhx(f[2]), unhx(f[4])
		failAt, _ := strconv.Atoi(f[3])
		if failAt < 0 || failAt > 1 {
			if len(rnd) == 0 {
				rnd = g.keyBytesRandom(48)
			}
			c.c10EncryptCase(s, 0, key, rnd, pt, nil, false)
			// twice on one object: the IV must be this call's draw both times
			obj, _ := newCipher(descIdxFor(key), key)
			for i := 0; i < 2 && obj != nil; i++ {
				var res callRes
				var ct []byte
				rd := withRand(rnd, -1, func() { res, ct = cbcEnc(obj, pt) })
				if res.kind == "ok" {
					if class, desc, _ := c10EncryptLaws(key, pt, ct, rd.served, rd.reads); class != "" {
						c.violate(Violation{Suite: "replay", Kind: "property", Class: class, Desc: fmt.Sprintf("Encrypt call %d on one object: %s", i, desc), Input: c.replay.Input, Expected: "C10 laws", Actual: clip(res.String())})
					}
				}
			}
			return
		}
		obj, _ := newCipher(descIdxFor(key), key)
		var res callRes
		var ct []byte
		withRand(rnd, failAt, func() { res, ct = cbcEnc(obj, pt) })
		s.add(in, true, "outcome:"+res.kind)
		if res.kind != "err" || ct != nil {
			c.violate(Violation{Suite: "replay", Kind: "property", Class: c.replay.Class, Desc: c.replay.Desc, Input: c.replay.Input, Expected: "err, nil ciphertext", Actual: clip(res.String())})
		}
	case "newcrypto":
		e, _ := strconv.Atoi(f[1])
		key := unhx(f[2])
		_, res := newCipher(e, key)
		s.add(in, true, "outcome:"+res.kind)
		exp := "err"
		if len(key) == refEncrKeyLen[e] {
			exp = "ok"
		}
		if res.kind != exp {
			c.violate(Violation{Suite: "replay", Kind: "property", Class: c.replay.Class, Desc: c.replay.Desc, Input: c.replay.Input, Expected: exp, Actual: okWord(res)})
		}
	case "cbc-iv-distinct":
		key, pt := unhx(f[1]), unhx(f[2])
		obj, _ := newCipher(descIdxFor(key), key)
		seen := map[string]bool{}
		for i := 0; i < 200 && obj != nil; i++ {
			_, ct := cbcEnc(obj, pt)
			s.add(fmt.Sprintf("%s call=%d", in, i), true)
			if len(ct) >= 16 && seen[string(ct[:16])] {
				c.violate(Violation{Suite: "replay", Kind: "property", Class: "iv-repeats", Desc: c.replay.Desc, Input: c.replay.Input, Expected: "pairwise distinct IVs", Actual: hx(ct[:16])})
				return
			}
			if len(ct) >= 16 {
				seen[string(ct[:16])] = true
			}
		}
	case "cbc-seq":
		key, rnd := unhx(f[1]), unhx(f[2])
		parts := strings.SplitN(in, " ", 4)
		if len(parts) < 4 {
			return
		}
		obj, _ := newCipher(descIdxFor(key), key)
		if obj == nil {
			return
		}
		old := crand.Reader
		det := &detReader{buf: rnd, failAt: -1}
		crand.Reader = det
		defer func() { crand.Reader = old }()
		for j, o := range parseOpsTail(parts[3]) {
			data := o.B(1)
			s.add(fmt.Sprintf("%s #%d", in, j), true)
			if o.Head() == "E" {
				r0, n0 := det.reads, len(det.served)
				res, ct := cbcEnc(obj, data)
				class, desc := "encrypt-fails:"+res.kind, "Encrypt failed"
				if res.kind == "ok" {
					class, desc, _ = c10EncryptLaws(key, data, ct, det.served[n0:], det.reads-r0)
				}
				if class != "" {
					c.violate(Violation{Suite: "replay", Kind: "property", Class: class, Desc: fmt.Sprintf("call #%d (Encrypt): %s", j, desc), Input: c.replay.Input, Expected: "C10 laws", Actual: clip(res.String())})
					return
				}
			} else if res, want := cbcDec(obj, data), refDecryptExpect(key, data); res != want {
				c.violate(Violation{Suite: "replay", Kind: "property", Class: c.replay.Class, Desc: fmt.Sprintf("call #%d (Decrypt) differs from textbook CBC decryption", j), Input: c.replay.Input, Expected: clip(want.String()), Actual: clip(res.String())})
				return
			}
		}
	case "saops":
		parts := strings.SplitN(in, " ", 12)
		if len(parts) < 12 {
			return
		}
		k, _ := parseKeysLine(append([]string{}, f[1:11]...))
		sa := newSA(k)
		for j, sx := range parseOpsTail(parts[11]) {
			o := &saOp{what: "replay"}
			switch sx.Head() {
			case "P":
				o.kind, o.role, o.rnd, o.sx = 'P', message.Role(sx.List[1].Atom == "I"), sx.B(2), sx.List[3]
			case "U":
				o.kind, o.role, o.withHdr, o.bs = 'U', message.Role(sx.List[1].Atom == "I"), sx.List[2].Atom == "1", sx.B(3)
				o.mustErr = strings.HasPrefix(c.replay.Class, "forged-accepted") && presentsSK(o.bs)
			case "C":
				e, _ := strconv.Atoi(sx.List[1].Atom)
				i, _ := strconv.Atoi(sx.List[2].Atom)
				o.kind, o.eIdx, o.iIdx, o.nonce = 'C', e, i, sx.B(3)
			default:
				return
			}
			long := runSaOp(sa, o)
			s.add(fmt.Sprintf("replay step %d %s", j, o.text()), j > 0, "outcome:"+long.kind)
			if class, desc, exp := c17Judge(k, o, long); class != "" {
				c.violate(Violation{Suite: "replay", Kind: "property", Class: class, Desc: fmt.Sprintf("step %d: %s", j, desc), Input: c.replay.Input, Expected: clip(exp), Actual: clip("long-lived: " + long.String())})
				return
			}
		}
	}
}
