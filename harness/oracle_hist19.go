package main

// C19 — builder histories: whole messages assembled through the builder API only, one call at a time, with an
// independently maintained expectation of the entire container after every call ("leaves earlier payloads
// untouched" over long call sequences, interleaved between sibling sub-containers).

import (
	"fmt"

	"github.com/free5gc/ike/message"
)

func (c *Ctx) c19Histories(g *Gen) {
	s := c.suite("builder-histories", "oracle",
		"messages assembled through the builder API only (octet-string arguments are now and then views into the data of payloads built earlier in the same history; in every third history most transforms go to one list of one proposal): 12..120 calls per history (thorough: up to 400) over {BuildSecurityAssociation, BuildProposal on any SA built so far, BuildTransform on any of the five lists of any proposal built so far (six argument shapes), BuildTrafficSelectorInitiator/Responder, BuildIndividualTrafficSelector on any TS payload built so far, BuildConfiguration, BuildConfigurationAttribute on any CP payload built so far, BuildNonce, BuildNotification, BUildKeyExchange, Reset() of transform / selector / configuration-attribute lists whose former slice value stays referenced and must keep showing its elements, BuildIdentificationInitiator, BuildCertificate, BuildNotify5G_QOS_INFO, BuildNotifyNAS_TCP_PORT}; after EVERY call the rendering of the whole container must equal the expectation kept by the oracle (= previous expectation with exactly the specified element appended at the specified place), and at the end the container must encode and decode to it when it lies in the encodable domain; one evaluation = one call; non-trivial = call number >= 2; distinct by (history, call)")
	nh := c.n(60, 1500)
	for h := 0; h < nh; h++ {
		steps := 12 + g.r.Intn(109)
		if c.thorough() && h%10 == 0 {
			steps = 200 + g.r.Intn(201)
		}
		var cont message.IKEPayloadContainer
		exp := L()
		type propRef struct {
			p  *message.Proposal
			sx *Sx
		}
		type tsRef struct {
			c  *message.IndividualTrafficSelectorContainer
			sx *Sx
		}
		type cpRef struct {
			c  *message.ConfigurationAttributeContainer
			sx *Sx
		}
		type saRef struct {
			sa *message.SecurityAssociation
			sx *Sx
		}
		var sas []saRef
		var props []propRef
		var tss []tsRef
		var cps []cpRef
		var log []string
		// slice values the application copied out of a sub-container before it Reset() that container (e.g. to reuse the
		// list in another proposal): what they show must not change when the container is filled again
		type keptList struct {
			render func() string
			want   string
			what   string
		}
		var keptLists []keptList
		// octet strings of payloads built earlier in this history: an application may pass a piece of one (a view with
		// the spare capacity that follows it in the earlier payload's memory) as an argument of a later call
		var earlier [][]byte
		arg := func(fresh []byte) []byte {
			if len(fresh) > 0 && len(earlier) > 0 && g.chance(0.3) {
				e := earlier[g.r.Intn(len(earlier))]
				if len(e) >= len(fresh) {
					off := g.r.Intn(len(e) - len(fresh) + 1)
					if g.chance(0.6) {
						off = 0
					}
					return e[off : off+len(fresh)] // same length as the fresh value would have had; capacity runs on into e
				}
			}
			return fresh
		}
		// focus: in every third history most transforms go to ONE list of ONE proposal (long lists next to short siblings)
		focus, focusList := h%3 == 0, g.r.Intn(5)
		for st := 0; st < steps; st++ {
			var what string
			x := g.r.Intn(100)
			if focus && len(props) > 0 && x >= 16 && x < 62 {
				x = 16 // BuildTransform
			}
			switch {
			case x >= 60 && x < 64 && len(props) > 0 && st > 4:
				r := props[g.r.Intn(len(props))]
				li := g.r.Intn(5)
				lists := []*message.TransformContainer{&r.p.EncryptionAlgorithm, &r.p.PseudorandomFunction, &r.p.IntegrityAlgorithm, &r.p.DiffieHellmanGroup, &r.p.ExtendedSequenceNumbers}
				old := *lists[li]
				keptLists = append(keptLists, keptList{func() string { return renderTC(old).String() }, renderTC(old).String(), "a transform list"})
				lists[li].Reset()
				r.sx.List[4+li].List = nil
				what = fmt.Sprintf("TransformContainer.Reset (list %d of a proposal; its former value stays referenced)", li)
			case x >= 64 && x < 66 && len(tss) > 0 && st > 4:
				r := tss[g.r.Intn(len(tss))]
				old := *r.c
				keptLists = append(keptLists, keptList{func() string { return renderTS(old).String() }, renderTS(old).String(), "a selector list"})
				r.c.Reset()
				r.sx.List[1].List = nil
				what = "IndividualTrafficSelectorContainer.Reset (its former value stays referenced)"
			case x >= 66 && x < 68 && len(cps) > 0 && st > 4:
				r := cps[g.r.Intn(len(cps))]
				old := *r.c
				rend := func() string {
					out := L()
					for _, a := range old {
						out.List = append(out.List, L(A("A"), N(uint64(a.Type)), X(a.Value)))
					}
					return out.String()
				}
				keptLists = append(keptLists, keptList{rend, rend(), "a configuration attribute list"})
				r.c.Reset()
				r.sx.List[2].List = nil
				what = "ConfigurationAttributeContainer.Reset (its former value stays referenced)"
			case x < 6 || (st == 0):
				sa := cont.BuildSecurityAssociation()
				sx := L(A("SA"), L())
				exp.List = append(exp.List, sx)
				sas = append(sas, saRef{sa, sx})
				what = "BuildSecurityAssociation"
			case x < 16 && len(sas) > 0:
				r := sas[g.r.Intn(len(sas))]
				num, proto, spi := uint8(g.u8()), uint8(g.u8()), g.bytes(g.pick(0, 0, 4, 8, g.r.Intn(20)))
				p := r.sa.Proposals.BuildProposal(num, proto, spi)
				sx := L(A("P"), N(uint64(num)), N(uint64(proto)), X(spi), L(), L(), L(), L(), L())
				r.sx.List[1].List = append(r.sx.List[1].List, sx)
				props = append(props, propRef{p, sx})
				what = fmt.Sprintf("BuildProposal(%d,%d,%s)", num, proto, hx(spi))
			case x < 62 && len(props) > 0:
				r := props[g.r.Intn(len(props))]
				li := g.r.Intn(5)
				if focus && g.chance(0.8) {
					r, li = props[0], focusList
				}
				lists := []*message.TransformContainer{&r.p.EncryptionAlgorithm, &r.p.PseudorandomFunction, &r.p.IntegrityAlgorithm, &r.p.DiffieHellmanGroup, &r.p.ExtendedSequenceNumbers}
				tt, id := uint8(li+1), uint16(g.u16())
				at, av := uint16(g.u15()), uint16(g.u16())
				vv := g.bytes(1 + g.r.Intn(12))
				var e *Sx
				switch g.r.Intn(4) {
				case 0:
					lists[li].BuildTransform(tt, id, nil, nil, nil)
					e = L(A("T"), N(uint64(tt)), N(uint64(id)), A("0"), N(0), N(0), N(0), X(nil))
				case 1:
					lists[li].BuildTransform(tt, id, &at, &av, nil)
					e = L(A("T"), N(uint64(tt)), N(uint64(id)), A("1"), N(1), N(uint64(at)), N(uint64(av)), X(nil))
				case 2:
					lists[li].BuildTransform(tt, id, &at, nil, vv)
					e = L(A("T"), N(uint64(tt)), N(uint64(id)), A("1"), N(0), N(uint64(at)), N(0), X(vv))
				default:
					lists[li].BuildTransform(tt, id, &at, nil, nil) // type without a value: nothing is appended
				}
				if e != nil {
					r.sx.List[4+li].List = append(r.sx.List[4+li].List, e)
				}
				what = fmt.Sprintf("BuildTransform(list %d of a proposal, id %d)", li, id)
			case x < 66:
				var cc *message.IndividualTrafficSelectorContainer
				kind := "TSi"
				if g.chance(0.5) {
					cc = &cont.BuildTrafficSelectorInitiator().TrafficSelectors
				} else {
					cc = &cont.BuildTrafficSelectorResponder().TrafficSelectors
					kind = "TSr"
				}
				sx := L(A(kind), L())
				exp.List = append(exp.List, sx)
				tss = append(tss, tsRef{cc, sx})
				what = "BuildTrafficSelector" + kind
			case x < 76 && len(tss) > 0:
				r := tss[g.r.Intn(len(tss))]
				ty, n := uint8(7), 4
				if g.chance(0.5) {
					ty, n = 8, 16
				}
				pr, sp, ep, a, b := uint8(g.u8()), uint16(g.u16()), uint16(g.u16()), g.bytes(n), g.bytes(n)
				r.c.BuildIndividualTrafficSelector(ty, pr, sp, ep, a, b)
				r.sx.List[1].List = append(r.sx.List[1].List, L(A("TS"), N(uint64(ty)), N(uint64(pr)), N(uint64(sp)), N(uint64(ep)), X(a), X(b)))
				what = "BuildIndividualTrafficSelector"
			case x < 79:
				ct := uint8(g.u8())
				cp := cont.BuildConfiguration(ct)
				sx := L(A("CP"), N(uint64(ct)), L())
				exp.List = append(exp.List, sx)
				cps = append(cps, cpRef{&cp.ConfigurationAttribute, sx})
				what = "BuildConfiguration"
			case x < 86 && len(cps) > 0:
				r := cps[g.r.Intn(len(cps))]
				at, v := uint16(g.u15()), g.bytes(g.r.Intn(20))
				r.c.BuildConfigurationAttribute(at, v)
				r.sx.List[2].List = append(r.sx.List[2].List, L(A("A"), N(uint64(at)), X(v)))
				what = "BuildConfigurationAttribute"
			case x < 89:
				v := arg(g.bytes(1 + g.r.Intn(40)))
				cont.BuildNonce(v)
				exp.List = append(exp.List, L(A("NONCE"), X(append([]byte{}, v...))))
				earlier = append(earlier, cont[len(cont)-1].(*message.Nonce).NonceData)
				what = "BuildNonce"
			case x < 92:
				pr, ty, spi, d := uint8(g.u8()), uint16(g.u16()), arg(g.bytes(g.pick(0, 0, 4, 8))), arg(g.bytes(g.r.Intn(30)))
				cont.BuildNotification(pr, ty, spi, d)
				exp.List = append(exp.List, L(A("N"), N(uint64(pr)), N(uint64(ty)), X(append([]byte{}, spi...)), X(append([]byte{}, d...))))
				if nd := cont[len(cont)-1].(*message.Notification).NotificationData; len(nd) > 0 {
					earlier = append(earlier, nd)
				}
				what = "BuildNotification"
			case x < 94:
				grp, d := uint16(g.u16()), arg(g.bytes(1+g.r.Intn(40)))
				cont.BUildKeyExchange(grp, d)
				exp.List = append(exp.List, L(A("KE"), N(uint64(grp)), X(append([]byte{}, d...))))
				earlier = append(earlier, cont[len(cont)-1].(*message.KeyExchange).KeyExchangeData)
				what = "BUildKeyExchange"
			case x < 96:
				ty, d := uint8(g.u8()), g.bytes(1+g.r.Intn(40))
				cont.BuildIdentificationInitiator(ty, d)
				exp.List = append(exp.List, L(A("IDi"), N(uint64(ty)), X(d)))
				what = "BuildIdentificationInitiator"
			case x < 97:
				ty, d := uint8(g.u8()), g.bytes(1+g.r.Intn(40))
				cont.BuildCertificate(ty, d)
				exp.List = append(exp.List, L(A("CERT"), N(uint64(ty)), X(d)))
				what = "BuildCertificate"
			case x < 99:
				id := uint8(g.u8())
				qfis := arg(g.bytes(g.r.Intn(6)))
				isDefault, diff := g.chance(0.5), g.chance(0.5)
				dscp := uint8(g.u8())
				if err := cont.BuildNotify5G_QOS_INFO(id, qfis, isDefault, diff, dscp); err == nil {
					v := []byte{0, id, byte(len(qfis))}
					v = append(v, qfis...)
					fl := byte(0)
					if isDefault {
						fl |= 2
					}
					if diff {
						fl |= 1
					}
					v = append(v, fl)
					if diff {
						v = append(v, dscp)
					}
					v[0] = byte(len(v))
					exp.List = append(exp.List, L(A("N"), N(0), N(55501), X(nil), X(v)))
					earlier = append(earlier, cont[len(cont)-1].(*message.Notification).NotificationData)
				}
				what = "BuildNotify5G_QOS_INFO"
			default:
				port := uint16(g.u16())
				cont.BuildNotifyNAS_TCP_PORT(port)
				if port != 0 { // port 0 = "no port": nothing is appended (as the single-call suite of the layouts states)
					exp.List = append(exp.List, L(A("N"), N(0), N(55506), X(nil), X([]byte{byte(port >> 8), byte(port)})))
				}
				what = "BuildNotifyNAS_TCP_PORT"
			}
			log = append(log, what)
			caseText := fmt.Sprintf("history %d call %d %s", h, st, what)
			setCase(caseText)
			s.add(caseText, st >= 1, "op:"+what[:min(len(what), 24)])
			for _, kl := range keptLists {
				if got := kl.render(); got != kl.want {
					c.violate(Violation{Suite: s.Name, Kind: "property", Index: h, Class: "builder-history-retained-list",
						Desc:  fmt.Sprintf("after call %d (%s): %s that was copied out of its container before the container was Reset() has changed (replay: re-run of the suite with this seed)", st, what, kl.what),
						Input: "", Expected: clip(kl.want), Actual: clip(got)})
					return
				}
			}
			if got, want := renderPayloads(cont).String(), exp.String(); got != want {
				tail := log
				if len(tail) > 12 {
					tail = tail[len(tail)-12:]
				}
				c.violate(Violation{Suite: s.Name, Kind: "property", Index: h, Class: "builder-history",
					Desc:  fmt.Sprintf("after call %d of a history of builder calls (%s) the container is not the previous container with exactly the specified element appended; last calls: %v (replay: re-run of the suite with this seed)", st, what, tail),
					Input: "", Expected: clip(want), Actual: clip(got)})
				return
			}
		}
	}
}
