package main

// C04 — decoders survive arbitrary bytes.

import (
	"fmt"
	"strings"

	"github.com/free5gc/ike/message"
)

func init() { props["C04"] = propC04 }

// a valid encoding to start mutations from, for the decoder `name`
func (g *Gen) baseFor(name string) []byte {
	tries := 0
	switch {
	case name == "msg" || name == "hdr":
		for {
			retryCap(&tries, "valid encoding for "+name)
			m := buildMsg(g.msg())
			if b, err := m.Encode(); err == nil {
				return b
			}
		}
	case strings.HasPrefix(name, "chain-"):
		for {
			retryCap(&tries, "valid encoding for "+name)
			c := buildPayloads(g.payloadList())
			if b, err := c.Encode(); err == nil {
				return b
			}
		}
	case name == "pl-SK":
		return g.bytes(g.size(200))
	case strings.HasPrefix(name, "pl-"):
		for {
			retryCap(&tries, "valid encoding for "+name)
			p := buildPayload(g.payload(name[3:], false))
			if b, err := p.Marshal(); err == nil {
				return b
			}
		}
	case name == "eap":
		for {
			retryCap(&tries, "valid encoding for "+name)
			p := buildPayload(g.eap())
			if b, err := p.Marshal(); err == nil {
				return b
			}
		}
	case strings.HasPrefix(name, "eapm-"):
		kind := name[5:]
		for {
			retryCap(&tries, "valid encoding for "+name)
			s := g.eapTypeData()
			if s.Head() != kind {
				continue
			}
			td, err := buildEapTypeData(s)
			if err != nil {
				continue
			}
			if b, err := td.Marshal(); err == nil {
				return b
			}
		}
	}
	panic("baseFor " + name)
}

// checkDecoder: one input through one decoder: no panic; result independent of spare capacity.
func (c *Ctx) checkDecoder(s *SuiteStat, d decoder, in []byte, idx int, tag string) callRes {
	r := runDec(d, in)
	if !c.thorough() && tag != "replay" && (tag == "sweep8" || tag == "sweep16") && idx%8 != 0 {
		// quick tier: the spare-capacity comparison on every 8th sweep input (exact-capacity run on all)
		s.add(d.name+" "+hx(in), len(in) >= 4, "dec:"+d.name, tag, "outcome:"+r.kind)
		if r.kind == "panic" {
			c.violate(Violation{Suite: s.Name, Kind: "property", Index: idx, Class: "panic:" + d.name,
				Desc:  "decoder panicked on this input: " + r.val,
				Input: "dec " + d.name + " " + hx(in), Expected: "value or error", Actual: "panic: " + r.val})
		}
		return r
	}
	key := d.name + " " + hx(in)
	s.add(key, len(in) >= 4, "dec:"+d.name, tag, "outcome:"+r.kind)
	if r.kind == "panic" {
		c.violate(Violation{Suite: s.Name, Kind: "property", Index: idx, Class: "panic:" + d.name,
			Desc:  "decoder panicked on this input: " + r.val,
			Input: "dec " + d.name + " " + hx(in), Expected: "value or error", Actual: "panic: " + r.val})
		return r
	}
	for _, fill := range []byte{0xA5, 0x5A} {
		r2 := runDecSpare(d, in, fill)
		if r2.kind != r.kind || r2.val != r.val {
			c.violate(Violation{Suite: s.Name, Kind: "property", Index: idx, Class: "spare-capacity:" + d.name,
				Desc:  fmt.Sprintf("result depends on memory behind the slice (fill %#x)", fill),
				Input: "dec " + d.name + " " + hx(in), Expected: clip(r.String()), Actual: clip(r2.String())})
			break
		}
	}
	return r
}

func c04Decoders() []decoder {
	ds := decoders()
	for _, t := range []uint8{0, 1, 32, 33, 34, 41, 42, 44, 45, 46, 47, 48, 49, 200} {
		ds = append(ds, chainDecoder(t))
	}
	return ds
}

// boundary sweep of header octets: every value of each of the first octets, and
// boundary values of every 16-bit field, combined with truncation windows.
func sweepInputs(g *Gen, base []byte, nPos int, wide bool, emit func(in []byte, tag string)) {
	if nPos > len(base) {
		nPos = len(base)
	}
	b16 := []int{0, 1, 3, 4, 7, 8, 9, 11, 12, 15, 16, 17, 39, 40, 41, 65523, 65524, 65525, 65527, 65528, 65531, 65532, 65533, 65534, 65535}
	lens := func(implied int) []int {
		out := []int{len(base)}
		if !wide {
			for d := -2; d <= 2; d++ {
				out = append(out, implied+d)
			}
			return append(out, len(base)-1, len(base)+1, 0, 1, 3, 4, 5, 7, 8, 9, 11, 12, 13, 15, 16, 17)
		}
		for d := -3; d <= 3; d++ {
			out = append(out, implied+d, len(base)+d)
		}
		for l := 0; l <= 20; l++ {
			out = append(out, l)
		}
		return out
	}
	for p := 0; p < nPos; p++ {
		for v := 0; v < 256; v++ {
			mod := append([]byte{}, base...)
			mod[p] = byte(v)
			for _, l := range lens(p + 1 + v) {
				if l < 0 {
					continue
				}
				in := mod
				if l <= len(mod) {
					in = mod[:l]
				} else if l <= len(mod)+8 {
					in = append(append([]byte{}, mod...), make([]byte, l-len(mod))...)
				} else {
					continue
				}
				emit(in, "sweep8")
			}
		}
		if p+1 < len(base) {
			for _, v := range append(b16, len(base)-1, len(base), len(base)+1, len(base)-p, len(base)-p-1) {
				if v < 0 || v > 65535 {
					continue
				}
				mod := append([]byte{}, base...)
				mod[p], mod[p+1] = byte(v>>8), byte(v)
				for _, l := range lens(v) {
					if l < 0 {
						continue
					}
					in := mod
					if l <= len(mod) {
						in = mod[:l]
					} else if l <= len(mod)+8 {
						in = append(append([]byte{}, mod...), make([]byte, l-len(mod))...)
					} else {
						continue
					}
					emit(in, "sweep16")
				}
			}
		}
	}
}

func propC04(c *Ctx) {
	g := NewGen(c.seed)
	ds := c04Decoders()

	if c.replay != nil {
		c.replayDecoder(ds)
		return
	}

	// (1) malformed stream
	s1 := c.suite("malformed", "oracle",
		"mutations (bit flips, length fields +-, wrap values, truncation, extension, splices) of valid encodings and random short strings, through every decoding entry point on exact-capacity slices and again with 0xA5/0x5A-filled spare capacity; non-trivial = input of >= 4 octets; distinct by (decoder, input)")
	var corr []corrCase
	perDec := c.n(400, 20000)
	idx := 0
	for _, d := range ds {
		for i := 0; i < perDec; i++ {
			var in []byte
			tag := "mut"
			switch {
			case i%10 == 9:
				in = g.bytes(g.r.Intn(40))
				tag = "random"
			case i%10 == 8:
				in = g.baseFor(d.name)
				tag = "valid"
			default:
				in = g.mutate(g.baseFor(d.name))
			}
			if len(in) > 70000 {
				in = in[:70000]
			}
			r := c.checkDecoder(s1, d, in, idx, tag)
			if i < c.n(120, 2000) && len(in) <= 4096 {
				corr = append(corr, corrCase{line: "dec " + d.name + " " + hx(in), goRes: r.String(), tags: []string{"dec:" + d.name, "outcome:" + r.kind}, nontr: len(in) >= 4})
			}
			idx++
		}
	}

	// (2) boundary sweep
	s2 := c.suite("boundary-sweep", "oracle",
		"for every decoding entry point: valid encodings with each of the first octets set to all 256 values and each 16-bit field set to boundary/wrap values, combined with every buffer length in a +-3 window around the implied and the real length and 0..20; non-trivial = input of >= 4 octets")
	bases := c.n(1, 6)
	nPos := c.n(9, 24)
	sweepCorrBudget := c.n(150, 3000)
	for _, d := range ds {
		kept := 0
		for k := 0; k < bases; k++ {
			base := g.baseFor(d.name)
			if len(base) > 300 {
				base = base[:300]
			}
			if len(base) == 0 {
				continue
			}
			cnt := 0
			sweepInputs(g, base, nPos, c.thorough(), func(in []byte, tag string) {
				r := c.checkDecoder(s2, d, in, idx, tag)
				idx++
				cnt++
				if kept < sweepCorrBudget && cnt%37 == 0 {
					kept++
					corr = append(corr, corrCase{line: "dec " + d.name + " " + hx(in), goRes: r.String(), tags: []string{"dec:" + d.name, "outcome:" + r.kind}, nontr: len(in) >= 4})
				}
			})
		}
	}

	// (2b) cross product over the leading fields of a body: small values in the first two octets x every 16-bit
	// value the source mentions (types, limits; and their neighbours when the literal is new) in octets 2..3 and 0..1
	s2b := c.suite("leading-field-cross-product", "oracle",
		"for every payload-body, chain, EAP and message decoder: inputs whose first octets are the cross product {0..5,8,16,255} x {0..5,8,16,255} x {every 16-bit integer literal of the current source, +-1 for literals the pinned tree does not have, and 0,1,255,256,65535} (also with the 16-bit value first), followed by 0,1,3,4,8,12 further octets (zero / 0xff / random); non-trivial = input of >= 4 octets")
	small := []int{0, 1, 2, 3, 4, 5, 8, 16, 255}
	w16 := map[int]bool{0: true, 1: true, 255: true, 256: true, 65535: true}
	for _, v := range dictInts {
		if v < 65536 {
			w16[int(v)] = true
		}
	}
	for _, v := range newInts {
		if v < 65536 {
			w16[int(v)] = true
		}
	}
	var w16s []int
	for v := 0; v < 65536; v++ {
		if w16[v] {
			w16s = append(w16s, v)
		}
	}
	tails := []int{0, 1, 3, 4, 8, 12}
	for _, d := range ds {
		if d.name == "msg" || d.name == "hdr" {
			continue
		}
		for _, a := range small {
			for _, b := range small {
				for _, w := range w16s {
					for ti, tl := range tails {
						tail := make([]byte, tl)
						switch (ti + a + w) % 3 {
						case 1:
							for i := range tail {
								tail[i] = 0xff
							}
						case 2:
							g.r.Read(tail)
						}
						in := append([]byte{byte(a), byte(b), byte(w >> 8), byte(w)}, tail...)
						if (a+b+w+ti)%2 == 1 {
							in = append([]byte{byte(w >> 8), byte(w), byte(a), byte(b)}, tail...)
						}
						c.checkDecoder(s2b, d, in, idx, "sweep16")
						idx++
					}
				}
			}
		}
	}

	// (2c) nested length fields that lie, two at a time: SA bodies in which one transform declares every length
	// 0,4,7..14 while its attribute declares every length / value 0..5 and 65520..65535 (both attribute formats),
	// with 0..8 octets really following, at every transform position; TS and CP bodies likewise
	s2c := c.suite("nested-length-lies", "oracle",
		"SA bodies (1..3 transforms, proposal length consistent with the octets present): at every transform position the cross product {declared transform length 0,4,7..14} x {attribute length/value field 0..5, 65520..65535} x {TV, TLV} x {0,1,4,8 value octets present}; TS bodies: {selector length 0,4,8,15..17,39..41} x {count 0,1,2,255} x {type 7,8,9}; CP bodies: {attribute length 0..4, 65530..65535} x {0,1,4 octets present}; through the body decoder, the chain decoder and the message decoder; non-trivial = every case")
	{
		var plSA, plTSi, plCP decoder
		for _, d := range ds {
			switch d.name {
			case "pl-SA":
				plSA = d
			case "pl-TSi":
				plTSi = d
			case "pl-CP":
				plCP = d
			}
		}
		var msgDec decoder = ds[0]
		emit := func(d decoder, typ uint8, body []byte) {
			r := c.checkDecoder(s2c, d, body, idx, "lies")
			idx++
			if idx%13 == 0 {
				corr = append(corr, corrCase{line: "dec " + d.name + " " + hx(body), goRes: r.String(), tags: []string{"dec:" + d.name, "outcome:" + r.kind, "lies"}, nontr: true})
			}
			if idx%4 == 0 {
				c.checkDecoder(s2c, msgDec, encodeHeaderRef(g.header(), typ, encodeChainRef([]chainElem{{typ: typ, body: body}})), idx, "lies")
			}
		}
		tls := []int{0, 4, 7, 8, 9, 10, 11, 12, 13, 14}
		als := []int{0, 1, 2, 3, 4, 5}
		for v := 65520; v <= 65535; v++ {
			als = append(als, v)
		}
		for base := 0; base < c.n(2, 12); base++ {
			nT := 1 + base%3
			spi := g.bytes([]int{0, 4, 8}[base%3])
			type tr struct{ typ, id, at, av int }
			trs := make([]tr, nT)
			for i := range trs {
				trs[i] = tr{1 + g.r.Intn(5), int(g.u16()), int(g.u15()), int(g.u16())}
				if i%2 == 0 {
					trs[i].at = 14
				}
			}
			for j := 0; j < nT; j++ {
				for _, tl := range tls {
					for _, al := range als {
						for _, tv := range []int{0, 1} {
							for _, nv := range []int{0, 1, 4, 8} {
								var tb []byte
								for i, t := range trs {
									last := byte(3)
									if i == nT-1 {
										last = 0
									}
									one := []byte{last, 0, 0, 12, byte(t.typ), 0, byte(t.id >> 8), byte(t.id), byte(0x80 | t.at>>8), byte(t.at), byte(t.av >> 8), byte(t.av)}
									if i == j {
										one[2], one[3] = byte(tl>>8), byte(tl)
										one[8] = byte(tv<<7 | t.at>>8&0x7f)
										one[10], one[11] = byte(al>>8), byte(al)
										one = append(one, g.keyBytesRandom(nv)...)
									}
									tb = append(tb, one...)
								}
								pl := 8 + len(spi) + len(tb)
								body := append([]byte{0, 0, byte(pl >> 8), byte(pl), 1, 1, byte(len(spi)), byte(nT)}, spi...)
								emit(plSA, 33, append(body, tb...))
							}
						}
					}
				}
			}
		}
		for _, sl := range []int{0, 4, 8, 15, 16, 17, 39, 40, 41} {
			for _, cnt := range []int{0, 1, 2, 255} {
				for _, ty := range []int{7, 8, 9} {
					for _, present := range []int{0, 8, 16, 40, 41} {
						body := []byte{byte(cnt), 0, 0, 0, byte(ty), byte(g.r.Intn(256)), byte(sl >> 8), byte(sl)}
						body = append(body, g.keyBytesRandom(present)...)
						emit(plTSi, 44, body)
					}
				}
			}
		}
		for _, al := range []int{0, 1, 2, 3, 4, 65530, 65531, 65532, 65533, 65534, 65535} {
			for _, present := range []int{0, 1, 4} {
				for _, second := range []bool{false, true} {
					body := []byte{byte(g.r.Intn(4)), 0, 0, 0, byte(g.r.Intn(128)), byte(g.r.Intn(256)), byte(al >> 8), byte(al)}
					body = append(body, g.keyBytesRandom(present)...)
					if second {
						body = append(body, 0, 1, 0, 0)
					}
					emit(plCP, 47, body)
				}
			}
		}
	}

	// (3) the unprotect and cipher entry points
	c.c04Unprotect(g)

	// (4) model vs implementation on a sample of (1) and (2)
	s4 := c.suite("decoders-model-vs-impl", "correspondence",
		"sample of the malformed and boundary-sweep inputs: outcome (value | err | panic/fault) of the Go decoder must equal the outcome of the Lean model function; non-trivial = input of >= 4 octets")
	c.correspond(s4, corr)
}

// replay of a decoder case: Input = "dec <name> <hex>"
func (c *Ctx) replayDecoder(ds []decoder) {
	f := strings.Fields(c.replay.Input)
	s := c.suite("replay", "oracle", "replay of one recorded case")
	if len(f) == 3 && f[0] == "dec" {
		for _, d := range ds {
			if d.name == f[1] {
				c.checkDecoder(s, d, unhx(f[2]), 0, "replay")
				return
			}
		}
	}
	c.replaySK(s)
}

var _ = message.IKE_HEADER_LEN
