package main

// C14 — EAP codec round trip and RFC 3748/4187/5448 framing incl. EAP-AKA' attributes.
// C15 — EAP-AKA' AT_MAC is HMAC-SHA-256-128 over the packet as sent; both ends agree.
//
// Everything between the two "independent reference" rulers below is written
// from the RFC layouts with the standard library only and never calls the
// implementation: an encoder (refAkaAttr / refEapBytes), a parser (akaWalk /
// parts), the canonical-wire predicate and the AT_MAC reference (refMac).

import (
	"bytes"
	"crypto/hmac"
	"crypto/sha256"
	"fmt"
	"sort"
	"strings"

	"github.com/free5gc/ike/eap"
	"github.com/free5gc/ike/message"
)

func init() {
	props["C14"] = propC14
	props["C15"] = propC15
}

// ===========================================================================
// independent reference (no library calls)

// one EAP-AKA' attribute.
//
//	AT_RAND(1) AT_AUTN(2) AT_MAC(11): type | 5 | 2 reserved zero octets | 16 octets          (RFC 4187 §10.6, 10.7, 10.15; RFC 5448 §3.4)
//	AT_RES(3) AT_KDF_INPUT(23):      type | words | exact value length | value | zero padding (RFC 4187 §10.8; RFC 5448 §3.1)
//	                                  the length unit is bits, as property C14 states it for both attributes
//	AT_KDF(24):                       24 | 1 | 2 octets                                        (RFC 5448 §3.2)
//	AT_CHECKCODE(134) and others:     type | words | 2 reserved zero octets | value            (RFC 4187 §10.13)
func refAkaAttr(t int, v []byte) []byte {
	n := len(v)
	switch t {
	case 1, 2, 11:
		return append([]byte{byte(t), 5, 0, 0}, v...)
	case 3, 23:
		words := (4 + n + 3) / 4
		out := []byte{byte(t), byte(words), byte((n * 8) >> 8), byte(n * 8)}
		out = append(out, v...)
		return append(out, make([]byte, 4*words-4-n)...)
	case 24:
		return append([]byte{24, 1}, v...)
	default:
		return append([]byte{byte(t), byte((4 + n) / 4), 0, 0}, v...)
	}
}

// the attribute set a sequence of accepted SETs leaves behind: later SET of a type wins
func wantAttrs(sets []*Sx) map[int][]byte {
	w := map[int][]byte{}
	for _, st := range sets {
		w[int(st.U(1))] = st.B(2)
	}
	return w
}

func sortedTypes(w map[int][]byte) []int {
	ts := make([]int, 0, len(w))
	for t := range w {
		ts = append(ts, t)
	}
	sort.Ints(ts)
	return ts
}

func refAkaBody(sub byte, w map[int][]byte) []byte {
	body := []byte{50, sub, 0, 0}
	for _, t := range sortedTypes(w) {
		body = append(body, refAkaAttr(t, w[t])...)
	}
	return body
}

func refEapFrame(code, id byte, body []byte) []byte {
	l := 4 + len(body)
	return append([]byte{code, id, byte(l >> 8), byte(l)}, body...)
}

// expected wire form of an input-form (EAP code id typedata)
func refEapBytes(sx *Sx) []byte {
	var body []byte
	td := sx.List[3]
	if td.IsL {
		switch td.Head() {
		case "ID":
			body = append([]byte{1}, td.B(1)...)
		case "NOTIF":
			body = append([]byte{2}, td.B(1)...)
		case "NAK":
			body = append([]byte{3}, td.B(1)...)
		case "EXP":
			vid, vt := td.U(1), td.U(2)
			body = []byte{254, byte(vid >> 16), byte(vid >> 8), byte(vid), byte(vt >> 24), byte(vt >> 16), byte(vt >> 8), byte(vt)}
			body = append(body, td.B(3)...)
		case "AKA":
			body = refAkaBody(byte(td.U(1)), wantAttrs(td.List[2:]))
		}
	}
	return refEapFrame(byte(sx.U(1)), byte(sx.U(2)), body)
}

type wAttr struct {
	t, words, off int
	raw           []byte // the whole attribute, 4*words octets
}

type akaPkt struct {
	code, id, sub byte
	hres          []byte
	attrs         []wAttr
}

// akaWalk splits an EAP packet of type 50 into attributes by their length octets
func akaWalk(w []byte) (*akaPkt, error) {
	if len(w) < 8 {
		return nil, fmt.Errorf("shorter than an EAP-AKA' header")
	}
	if int(w[2])<<8|int(w[3]) != len(w) {
		return nil, fmt.Errorf("EAP length field %d != packet size %d", int(w[2])<<8|int(w[3]), len(w))
	}
	if w[4] != 50 {
		return nil, fmt.Errorf("EAP type %d != 50", w[4])
	}
	p := &akaPkt{code: w[0], id: w[1], sub: w[5], hres: w[6:8]}
	for off := 8; off < len(w); {
		if off+2 > len(w) {
			return nil, fmt.Errorf("attribute header truncated at %d", off)
		}
		words := int(w[off+1])
		if words == 0 {
			return nil, fmt.Errorf("attribute at %d has length 0", off)
		}
		if off+4*words > len(w) {
			return nil, fmt.Errorf("attribute at %d (type %d, %d words) overruns the packet", off, w[off], words)
		}
		p.attrs = append(p.attrs, wAttr{t: int(w[off]), words: words, off: off, raw: w[off : off+4*words]})
		off += 4 * words
	}
	return p, nil
}

// parts splits an attribute by its RFC layout: reserved octets (nil where the
// layout has none), value, padding
func (a wAttr) parts() (res, val, pad []byte, err error) {
	switch a.t {
	case 1, 2, 11:
		if a.words != 5 {
			return nil, nil, nil, fmt.Errorf("attribute type %d with length %d words, want 5", a.t, a.words)
		}
		return a.raw[2:4], a.raw[4:20], nil, nil
	case 3, 23:
		bits := int(a.raw[2])<<8 | int(a.raw[3])
		if bits%8 != 0 {
			return nil, nil, nil, fmt.Errorf("attribute type %d: value length %d bits is not whole octets", a.t, bits)
		}
		n := bits / 8
		if 4+n > len(a.raw) {
			return nil, nil, nil, fmt.Errorf("attribute type %d: value of %d octets does not fit %d words", a.t, n, a.words)
		}
		return nil, a.raw[4 : 4+n], a.raw[4+n:], nil
	case 24:
		if a.words != 1 {
			return nil, nil, nil, fmt.Errorf("AT_KDF with length %d words, want 1", a.words)
		}
		return nil, a.raw[2:4], nil, nil
	default:
		return a.raw[2:4], a.raw[4:], nil, nil
	}
}

func allZero(b []byte) bool {
	for _, x := range b {
		if x != 0 {
			return false
		}
	}
	return true
}

// wireClass: wellFormed = splits into attributes whose layouts are respected;
// canonical = additionally strictly ascending attribute types, zero reserved
// octets in RAND/AUTN/MAC/CHECKCODE, zero padding.
func wireClass(w []byte) (wellFormed, canonical bool) {
	p, err := akaWalk(w)
	if err != nil {
		return false, false
	}
	canonical = true
	prev := -1
	for _, a := range p.attrs {
		res, _, pad, err := a.parts()
		if err != nil {
			return false, false
		}
		if a.t <= prev {
			canonical = false
		}
		prev = a.t
		switch a.t {
		case 1, 2, 11, 134:
			if !allZero(res) {
				canonical = false
			}
		}
		if !allZero(pad) {
			canonical = false
		}
	}
	return true, canonical
}

// refMac: RFC 4187 §10.15 / RFC 5448 §3.4 — HMAC-SHA-256 over the whole EAP packet with
// the 16 MAC octets of AT_MAC set to zero, truncated to 16 octets.  ok = the packet
// splits into attributes and carries AT_MAC.  Also returns the transmitted value.
func refMac(key, w []byte) (mac, sent []byte, ok bool) {
	p, err := akaWalk(w)
	if err != nil {
		return nil, nil, false
	}
	z := append([]byte{}, w...)
	found := false
	for _, a := range p.attrs {
		if a.t == 11 {
			if a.words != 5 {
				return nil, nil, false
			}
			if !found {
				sent = append([]byte{}, a.raw[4:20]...)
			}
			found = true
			for i := a.off + 4; i < a.off+20; i++ {
				z[i] = 0
			}
		}
	}
	if !found {
		return nil, nil, false
	}
	h := hmac.New(sha256.New, key)
	h.Write(z)
	return h.Sum(nil)[:16], sent, true
}

// framing of a library-produced packet against the input-form value it was produced from
func framingCheck(sx *Sx, w []byte) string {
	code, id := byte(sx.U(1)), byte(sx.U(2))
	if len(w) < 4 {
		return fmt.Sprintf("packet of %d octets", len(w))
	}
	if w[0] != code || w[1] != id {
		return "code/identifier octets differ from the fields"
	}
	if int(w[2])<<8|int(w[3]) != len(w) {
		return fmt.Sprintf("length field %d != packet size %d", int(w[2])<<8|int(w[3]), len(w))
	}
	td := sx.List[3]
	if !td.IsL {
		if len(w) != 4 {
			return fmt.Sprintf("packet without method data has %d octets, want 4", len(w))
		}
		return ""
	}
	switch td.Head() {
	case "ID", "NOTIF", "NAK":
		ty := map[string]byte{"ID": 1, "NOTIF": 2, "NAK": 3}[td.Head()]
		if len(w) < 5 || w[4] != ty || !bytes.Equal(w[5:], td.B(1)) {
			return "type octet / type data differ"
		}
	case "EXP":
		if len(w) < 12 || w[4] != 254 {
			return "expanded type: no 254 | vendor id | vendor type header"
		}
		vid := uint64(w[5])<<16 | uint64(w[6])<<8 | uint64(w[7])
		vt := uint64(w[8])<<24 | uint64(w[9])<<16 | uint64(w[10])<<8 | uint64(w[11])
		if vid != td.U(1) || vt != td.U(2) {
			return fmt.Sprintf("expanded type: vendor id %d / vendor type %d on the wire", vid, vt)
		}
		if !bytes.Equal(w[12:], td.B(3)) {
			return "expanded type: vendor data differs"
		}
	case "AKA":
		want := wantAttrs(td.List[2:])
		p, err := akaWalk(w)
		if err != nil {
			return err.Error()
		}
		if p.sub != byte(td.U(1)) {
			return "subtype octet differs"
		}
		if !allZero(p.hres) {
			return "reserved octets after the subtype are not zero"
		}
		prev := -1
		seen := map[int]bool{}
		for _, a := range p.attrs {
			if a.t <= prev {
				return fmt.Sprintf("attribute type %d follows %d: not in ascending order", a.t, prev)
			}
			prev = a.t
			seen[a.t] = true
			v, okw := want[a.t]
			if !okw {
				return fmt.Sprintf("attribute type %d on the wire was never set", a.t)
			}
			res, val, pad, err := a.parts()
			if err != nil {
				return err.Error()
			}
			if !bytes.Equal(val, v) {
				return fmt.Sprintf("attribute type %d: value on the wire %s, set %s", a.t, hx(val), hx(v))
			}
			if res != nil && !allZero(res) {
				return fmt.Sprintf("attribute type %d: reserved octets %s not zero", a.t, hx(res))
			}
			if !allZero(pad) || len(pad) > 3 {
				return fmt.Sprintf("attribute type %d: padding %s", a.t, hx(pad))
			}
			if a.t == 134 && 4*a.words != 4+len(v) {
				return fmt.Sprintf("AT_CHECKCODE: %d words for %d value octets", a.words, len(v))
			}
		}
		for t := range want {
			if !seen[t] {
				return fmt.Sprintf("attribute type %d was set but is not on the wire", t)
			}
		}
	}
	return ""
}

// end of the independent reference
// ===========================================================================

// setter rule of the property: which (type, size) SetAttr accepts
func setterAccepts(t, n int) bool {
	switch t {
	case 1, 2, 11:
		return n == 16
	case 24:
		return n == 2
	case 3:
		return n >= 4 && n <= 16
	case 23, 134:
		return true
	}
	return false
}

var akaProbeTypes = []int{0, 1, 2, 3, 4, 11, 12, 14, 22, 23, 24, 25, 134, 255}

// akaGetCheck: GetAttr(t).GetValue() against the expected set, for every type 0..255 (full)
// or for the settable types and a few others (GetAttr of an absent type builds an error
// value with a stack trace, which dominates the run time otherwise)
func akaGetCheck(a *eap.EapAkaPrime, want map[int][]byte, full bool) (desc string) {
	defer func() {
		if p := recover(); p != nil {
			desc = fmt.Sprintf("GetAttr panicked: %v", p)
		}
	}()
	types := akaProbeTypes
	if full {
		types = make([]int, 256)
		for i := range types {
			types[i] = i
		}
	}
	for _, t := range types {
		at, err := a.GetAttr(eap.EapAkaPrimeAttrType(t))
		v, in := want[t]
		switch {
		case in && err != nil:
			return fmt.Sprintf("GetAttr(%d): error, expected value %s", t, hx(v))
		case !in && err == nil:
			return fmt.Sprintf("GetAttr(%d): value %s, but the attribute was never set", t, hx(at.GetValue()))
		case in:
			if !bytes.Equal(at.GetValue(), v) {
				return fmt.Sprintf("GetAttr(%d).GetValue() = %s, value set = %s", t, hx(at.GetValue()), hx(v))
			}
			if int(at.GetAttrType()) != t {
				return fmt.Sprintf("GetAttr(%d).GetAttrType() = %d", t, at.GetAttrType())
			}
			// what a caller does who appends 1..3 octets to the value it read back (e.g. to build a longer string from
			// it): a write into the spare capacity of the returned slice, which is no part of the value.  The message is
			// unmodified; its later encodings are still compared with the reference.
			if gv := at.GetValue(); cap(gv) > len(gv) {
				ext := gv[len(gv):cap(gv)]
				if len(ext) > 3 {
					ext = ext[:3]
				}
				for i := range ext {
					ext[i] = 0xde
				}
			}
		}
	}
	return ""
}

func marshalVia(route int, e *eap.EAP) callRes {
	return guard(func() (string, error) {
		var b []byte
		var err error
		if route == 1 {
			b, err = (&message.PayloadEap{EAP: e}).Marshal()
		} else {
			b, err = e.Marshal()
		}
		if err != nil {
			return "", err
		}
		if route == 2 && e.EapTypeData != nil {
			tb, err := e.EapTypeData.Marshal()
			if err != nil {
				return "", err
			}
			if len(b) < 4 || !bytes.Equal(tb, b[4:]) {
				return "method-marshal-differs " + hx(tb), nil
			}
		}
		poolAdd(b)
		return hxOwn(b), nil
	})
}

func eapKind(sx *Sx) string {
	if td := sx.List[3]; td.IsL {
		return td.Head()
	}
	return "nil"
}

func akaSetTags(td *Sx) []string {
	var tags []string
	for _, st := range td.List[2:] {
		t, n := st.U(1), len(st.B(2))
		tags = append(tags, fmt.Sprintf("attr:%d", t))
		if t == 23 {
			switch {
			case n >= 247 && n <= 256:
				tags = append(tags, "kdf-input:247..256")
			case n >= 299:
				tags = append(tags, "kdf-input:299..300")
			}
		}
		if (t == 3 || t == 23) && n%4 != 0 {
			tags = append(tags, "padded-value")
		}
	}
	return tags
}

// ---------------------------------------------------------------------------
// C14

// one packet: get-after-set, determinism, framing, round trip.  case line: "eap-case <EAP input form>"
func (c *Ctx) c14Case(s *SuiteStat, sx *Sx, idx int, corr *[]corrCase) {
	line := "eap-case " + sx.String()
	setCase(line)
	kind := eapKind(sx)
	tags := []string{"method:" + kind, fmt.Sprintf("code:%d", min(int(sx.U(1)), 5))}
	if kind == "AKA" {
		tags = append(tags, akaSetTags(sx.List[3])...)
	}
	s.add(line, kind != "nil", tags...)
	bad := func(class, desc, exp, act string) {
		c.violate(Violation{Suite: s.Name, Kind: "property", Index: idx, Class: class, Desc: desc, Input: line, Expected: clip(exp), Actual: clip(act)})
	}

	// build; for AKA' through SetAttr with a read-back after every call
	var e *eap.EAP
	var aka *eap.EapAkaPrime
	want := map[int][]byte{}
	if kind == "AKA" {
		td := sx.List[3]
		aka = eap.NewEapAkaPrime(eap.EapAkaSubtype(td.U(1)))
		for _, st := range td.List[2:] {
			t, v := int(st.U(1)), st.B(2)
			vin := exact(v)
			r := guard(func() (string, error) { return "", aka.SetAttr(eap.EapAkaPrimeAttrType(t), vin) })
			if r.kind != "ok" {
				bad("setter-refuses-valid:"+r.kind, fmt.Sprintf("SetAttr(%d, %d octets) of a permitted size failed", t, len(v)), "ok", r.String())
				return
			}
			for i := range vin { // the caller reuses its buffer
				vin[i] ^= 0xa5
			}
			want[t] = v
			if d := akaGetCheck(aka, want, false); d != "" {
				bad("get-after-set:fresh", "value read back right after SetAttr is not the value set: "+d, "value set", d)
				return
			}
		}
		if uint64(aka.SubType()) != td.U(1) {
			bad("subtype", "SubType() differs from the constructor argument", td.List[1].Atom, fmt.Sprint(aka.SubType()))
			return
		}
		e = &eap.EAP{Code: eap.EapCode(sx.U(1)), Identifier: uint8(sx.U(2)), EapTypeData: aka}
	} else {
		e, _ = buildEAP(sx)
	}

	// encode 8 times by three routes: identical bytes, stored values untouched
	var first callRes
	for k := 0; k < 8; k++ {
		r := marshalVia(k%3, e)
		if k == 0 {
			first = r
		} else if r != first {
			bad("nondeterministic-marshal", fmt.Sprintf("encoding #%d of the same unmodified message differs from the first", k+1), first.String(), r.String())
			return
		}
		if aka != nil {
			if d := akaGetCheck(aka, want, k == 7); d != "" {
				bad("get-after-set:after-marshal", fmt.Sprintf("after %d Marshal call(s) the value read back is not the value set: %s", k+1, d), "value set", d)
				return
			}
		}
	}
	if corr != nil {
		*corr = append(*corr, corrCase{line: "enc eap " + sx.String(), goRes: first.String(), nontr: kind != "nil", tags: []string{"op:enc", "method:" + kind}})
	}
	if first.kind != "ok" {
		bad("marshal-fails:"+first.kind, "Marshal failed on a packet of the encodable domain", "ok", first.String())
		return
	}
	wire := unhx(first.val)

	// framing: structural checks by the independent parser, and octet equality with the independent encoder
	if d := framingCheck(sx, wire); d != "" {
		bad("framing:"+kind, "encoded packet is not well-formed: "+d, hx(refEapBytes(sx)), hx(wire))
		return
	}
	if ref := refEapBytes(sx); !bytes.Equal(ref, wire) {
		bad("framing:ref-bytes:"+kind, "encoded packet differs from the independent RFC encoder", hx(ref), hx(wire))
		return
	}

	if corr != nil && kind == "AKA" { // the Go reference encoder against the Lean RFC specification
		parts := []string{"spec-aka", sx.List[1].Atom, sx.List[2].Atom, sx.List[3].List[1].Atom}
		for _, t := range sortedTypes(want) {
			parts = append(parts, L(A("AT"), N(uint64(t)), X(want[t])).String())
		}
		*corr = append(*corr, corrCase{line: strings.Join(parts, " "), goRes: "ok " + hx(refEapBytes(sx)), nontr: len(want) > 0, tags: []string{"op:spec-aka"}})
	}

	// round trip
	wantR := renderEAP(e).String()
	e2 := new(eap.EAP)
	dr := guard(func() (string, error) {
		if err := e2.Unmarshal(exact(wire)); err != nil {
			return "", err
		}
		return renderEAP(e2).String(), nil
	})
	if corr != nil {
		*corr = append(*corr, corrCase{line: "dec eap " + hx(wire), goRes: dr.String(), nontr: kind != "nil", tags: []string{"op:dec", "method:" + kind}})
	}
	if dr.kind != "ok" || dr.val != wantR {
		bad("roundtrip:"+kind+":"+dr.kind, "Unmarshal(Marshal(e)) differs from e", "ok "+wantR, dr.String())
		return
	}
	if aka != nil {
		a2, ok := e2.EapTypeData.(*eap.EapAkaPrime)
		if !ok {
			bad("roundtrip:AKA:type", "decoded method data is not EAP-AKA'", "*eap.EapAkaPrime", fmt.Sprintf("%T", e2.EapTypeData))
			return
		}
		if d := akaGetCheck(a2, want, true); d != "" {
			bad("get-after-set:decoded", "value read from the decoded copy is not the value set: "+d, "value set", d)
			return
		}
		if a2.SubType() != aka.SubType() {
			bad("subtype", "decoded subtype differs", fmt.Sprint(aka.SubType()), fmt.Sprint(a2.SubType()))
			return
		}
	}
	// the IKE payload wrapper decodes to the same value
	pr := guard(func() (string, error) {
		p := message.NewPayloadEap()
		if err := p.Unmarshal(exact(wire)); err != nil {
			return "", err
		}
		return renderEAP(p.EAP).String(), nil
	})
	if pr != dr {
		bad("roundtrip:payload-eap", "message.PayloadEap.Unmarshal differs from eap.EAP.Unmarshal", dr.String(), pr.String())
		return
	}
	// the decoded copy encodes to the same octets
	if r := marshalVia(0, e2); r != first {
		bad("roundtrip:re-encode", "Marshal of the decoded copy differs from the received octets", first.String(), r.String())
	}
}

func goAkaSet(td *Sx) string {
	a := eap.NewEapAkaPrime(eap.EapAkaSubtype(td.U(1)))
	var parts []string
	for _, st := range td.List[2:] {
		st := st
		r := guard(func() (string, error) { return "", a.SetAttr(eap.EapAkaPrimeAttrType(st.U(1)), st.B(2)) })
		if r.kind == "panic" {
			return "panic"
		}
		parts = append(parts, r.kind)
	}
	r := guard(func() (string, error) { return renderEapTypeData(a).String(), nil })
	if r.kind != "ok" {
		return "panic"
	}
	return strings.Join(append(parts, r.val), " ")
}

func akasetLine(td *Sx) string {
	parts := []string{"akaset", td.List[1].Atom}
	for _, st := range td.List[2:] {
		parts = append(parts, st.String())
	}
	return strings.Join(parts, " ")
}

// one setter call on a prepared packet.  case line: "setter-case (AKA sub (SET ..)...) <t> x<value>"
func (c *Ctx) c14Setter(s *SuiteStat, prev *Sx, t int, v []byte, idx int, corr *[]corrCase) {
	line := fmt.Sprintf("setter-case %s %d %s", prev.String(), t, hx(v))
	setCase(line)
	exp := setterAccepts(t, len(v))
	_, had := wantAttrs(prev.List[2:])[t]
	s.add(line, true, fmt.Sprintf("type:%d", t), fmt.Sprintf("expect-accept:%v", exp), fmt.Sprintf("had-previous-value:%v", had))
	bad := func(class, desc, e, a string) {
		c.violate(Violation{Suite: s.Name, Kind: "property", Index: idx, Class: class, Desc: desc, Input: line, Expected: clip(e), Actual: clip(a)})
	}
	td, err := buildEapTypeData(prev)
	if err != nil {
		bad("setter-refuses-valid:err", "SetAttr of a permitted size failed while preparing the packet", "ok", "err")
		return
	}
	a := td.(*eap.EapAkaPrime)
	want := wantAttrs(prev.List[2:])
	before := guard(func() (string, error) { b, err := a.Marshal(); return hx(b), err })
	vin := exact(v)
	r := guard(func() (string, error) { return "", a.SetAttr(eap.EapAkaPrimeAttrType(t), vin) })
	if corr != nil {
		full := L(append(append([]*Sx{}, prev.List...), L(A("SET"), N(uint64(t)), X(v)))...)
		*corr = append(*corr, corrCase{line: akasetLine(full), goRes: goAkaSet(full), nontr: true, tags: []string{fmt.Sprintf("last-accepted:%v", exp)}})
	}
	switch {
	case r.kind == "panic":
		bad("setter-panic", fmt.Sprintf("SetAttr(%d, %d octets) panicked: %s", t, len(v), r.val), "ok or err", "panic")
		return
	case r.kind == "ok" && !exp:
		bad("setter-accepts-wrong-size", fmt.Sprintf("SetAttr(%d, %d octets) accepted", t, len(v)), "err", "ok")
		return
	case r.kind == "err" && exp:
		bad("setter-refuses-valid:err", fmt.Sprintf("SetAttr(%d, %d octets) refused", t, len(v)), "ok", "err")
		return
	}
	if exp {
		want[t] = v
	}
	if d := akaGetCheck(a, want, idx%16 == 0); d != "" {
		if exp {
			bad("get-after-set:fresh", "value read back right after SetAttr is not the value set: "+d, "value set", d)
		} else {
			bad("refused-set-changes-packet", "a refused SetAttr changed the stored attributes: "+d, "unchanged", d)
		}
		return
	}
	after := guard(func() (string, error) { b, err := a.Marshal(); return hx(b), err })
	wantBytes := "ok " + hx(refAkaBody(byte(prev.U(1)), want))
	if !exp && after != before {
		bad("refused-set-changes-packet", "Marshal output changed after a refused SetAttr", before.String(), after.String())
		return
	}
	if after.String() != wantBytes {
		bad("framing:ref-bytes:AKA", "EapAkaPrime.Marshal differs from the independent RFC encoder", wantBytes, after.String())
	}
}

// an arbitrary SetAttr sequence, refused calls included
func (g *Gen) akaSetSeq() *Sx {
	td := L(A("AKA"), N(uint64(g.pick(1, 2, 4, 5, 12, 13, 14, g.r.Intn(256)))))
	for i, n := 0, g.r.Intn(9); i < n; i++ {
		if g.chance(0.5) {
			sets := g.akaSets()
			if len(sets) > 0 {
				td.List = append(td.List, sets[0])
				continue
			}
		}
		t := g.pick(1, 2, 3, 11, 23, 24, 134, 1, 2, 3, 11, 24, 0, 4, 12, 14, 22, 25, 133, 135, 200, 255, g.r.Intn(256))
		n := g.pick(0, 1, 2, 3, 4, 5, 15, 16, 17, 20, 32, g.r.Intn(40), g.r.Intn(301))
		if t == 134 { // keep AT_CHECKCODE to whole words: other sizes are outside C14's domain
			n = g.pick(0, 4, 20, 32, 40)
		}
		td.List = append(td.List, L(A("SET"), N(uint64(t)), X(g.bytes(n))))
	}
	return td
}

// packets of the C14 domain beyond g.eap(): arbitrary codes, packets without method data, value-size sweeps
func (g *Gen) c14Eap(i int) *Sx {
	switch i % 8 {
	case 0: // any code other than Success/Failure with method data
		code := g.u8()
		if code == 3 || code == 4 {
			code = 1
		}
		return L(A("EAP"), N(code), N(g.u8()), g.eapTypeData())
	case 1:
		return L(A("EAP"), N(uint64(g.pick(1, 2, 3, 4, 3, 4, 0, 5, 255))), N(g.u8()), A("nil"))
	case 2, 3:
		td := L(A("AKA"), N(uint64(g.pick(1, 2, 4, 5, 12, 13, 14, g.r.Intn(256)))))
		td.List = append(td.List, g.akaSets()...)
		return L(A("EAP"), N(uint64(g.pick(1, 2))), N(g.u8()), td)
	case 4:
		vid, vt, d := uint64(g.r.Intn(1<<24)), g.u32(), g.bytes(g.size(3000))
		switch g.r.Intn(4) {
		case 0: // EAP-5G: vendor id 3GPP, vendor type EAP-5G, message id | spare | NAS / AN parameters
			vid, vt = 10415, 3
			d = append([]byte{byte(g.pick(1, 2, 4)), 0}, g.bytes(g.size(1500))...)
		case 1:
			vid = uint64(g.pick(0, 1, 255, 256, 65535, 65536, 1<<24-1))
		}
		return L(A("EAP"), N(uint64(g.pick(1, 2))), N(g.u8()), L(A("EXP"), N(vid), N(vt), X(d)))
	default:
		return g.eap()
	}
}

// packets written without the library (arbitrary attribute order, duplicates, non-zero reserved octets and
// padding), mutated ones and noise, decoded into throw-away objects: history for the cases that follow
func c14ForeignDecode(g *Gen) {
	var w []byte
	switch g.r.Intn(4) {
	case 0:
		w = g.akaWire()
	case 1:
		w = g.mutate(g.akaWireMac(g.keyBytesRandom(32), true))
	default:
		w = g.akaWireMac(g.keyBytesRandom(32), true)
	}
	guard(func() (string, error) { return "", new(eap.EAP).Unmarshal(exact(w)) })
}

// a message that was RECEIVED (decoded from a canonical packet written by the reference encoder) and is then
// modified through the API: further SetAttr calls (new types and overwrites), read back, marshalled
func (c *Ctx) c14DecodedThenSet(s *SuiteStat, g *Gen, idx int) {
	sets1, sets2 := g.akaSets(), g.akaSets()
	sub := uint64(g.pick(1, 2, 4, 5, 12, 13, 14))
	code, id := uint64(g.pick(1, 2)), g.u8()
	td1 := L(A("AKA"), N(sub))
	td1.List = append(td1.List, sets1...)
	all := L(A("AKA"), N(sub))
	all.List = append(append(all.List, sets1...), sets2...)
	wire1 := refEapBytes(L(A("EAP"), N(code), N(id), td1))
	wantWire := refEapBytes(L(A("EAP"), N(code), N(id), all))
	text := "decoded-then-set " + hx(wire1) + " " + L(sets2...).String()
	setCase(text)
	s.add(text, len(sets2) > 0, "step:decoded-then-set", fmt.Sprintf("received-attrs:%d", len(sets1)), fmt.Sprintf("set-afterwards:%d", len(sets2)))
	r := guard(func() (string, error) {
		e := new(eap.EAP)
		if err := e.Unmarshal(exact(wire1)); err != nil {
			return "", fmt.Errorf("unmarshal: %v", err)
		}
		a, ok := e.EapTypeData.(*eap.EapAkaPrime)
		if !ok {
			return "not-aka", nil
		}
		for _, st := range sets2 {
			if err := a.SetAttr(eap.EapAkaPrimeAttrType(st.U(1)), st.B(2)); err != nil {
				return "", fmt.Errorf("setattr %d: %v", st.U(1), err)
			}
		}
		if d := akaGetCheck(a, wantAttrs(all.List[2:]), false); d != "" {
			return "readback: " + d, nil
		}
		b, err := e.Marshal()
		if err != nil {
			return "", err
		}
		return hx(b), nil
	})
	if r.String() != "ok "+hx(wantWire) {
		c.violate(Violation{Suite: s.Name, Kind: "property", Index: idx, Class: "decoded-then-set:" + r.kind,
			Desc:  "a decoded EAP-AKA' message to which further attributes were set through SetAttr does not read back / encode as the message holding the received and the set attributes",
			Input: text, Expected: "ok " + hx(wantWire), Actual: clip(r.String())})
	}
}

func propC14(c *Ctx) {
	g := NewGen(c.seed)
	if c.replay != nil {
		c.replayEap()
		return
	}
	var corr, corrSet []corrCase

	s1 := c.suite("eap-roundtrip-framing", "oracle",
		"EAP packets of the encodable domain (codes 1,2 and arbitrary codes with Identity/Notification/Nak >= 1 octet, Expanded with vendor id < 2^24 incl. EAP-5G, AKA' built by SetAttr from any subset of RAND/AUTN/MAC(16) RES(4..16) KDF(2) KDF_INPUT(0..300) CHECKCODE(0,20,32) in arbitrary call order with overwrites; codes 3,4 and others without method data): value read back after every SetAttr, Marshal 8 times through (*EAP).Marshal / message.PayloadEap / method Marshal with read-back after each, framing by an independent parser and octet equality with an independent RFC encoder, Unmarshal == original, read-back on the decoded copy; before every third case a packet written WITHOUT the library (arbitrary attribute order, duplicates, non-zero reserved octets and padding, or mutated) is decoded into a throw-away object; plus a sweep of every KDF_INPUT size 0..300 and every RES size 4..16 alone and next to other attributes; non-trivial = packet with method data; distinct by packet")
	idx := 0
	for i := 0; i < c.n(1500, 100000); i++ {
		if i%3 == 1 { // the process also decodes what peers send, in between
			c14ForeignDecode(g)
		}
		if i%5 == 3 {
			libNoise(g)
		}
		if i%4 == 2 {
			c.c14DecodedThenSet(s1, g, idx)
		}
		c.c14Case(s1, g.c14Eap(i), idx, &corr)
		idx++
	}
	// sweep: every KDF_INPUT size, every RES size, alone and combined
	for rep := 0; rep < c.n(1, 6); rep++ {
		for n := 0; n <= 300; n++ {
			td := L(A("AKA"), N(uint64(g.pick(1, 5, 13))))
			if rep%2 == 1 {
				td.List = append(td.List, g.akaSets()...)
			}
			td.List = append(td.List, L(A("SET"), N(23), X(g.bytes(n))))
			if n >= 4 && n <= 16 {
				td.List = append(td.List, L(A("SET"), N(3), X(g.bytes(n))))
			}
			c.c14Case(s1, L(A("EAP"), N(uint64(g.pick(1, 2))), N(g.u8()), td), idx, &corr)
			idx++
		}
	}
	// overwrite: SetAttr twice, the later value wins (also with a different size)
	for i := 0; i < c.n(200, 5000); i++ {
		td := L(A("AKA"), N(uint64(g.pick(1, 2, 4, 5, 12, 13, 14))))
		sets := g.akaSets()
		for len(sets) == 0 {
			sets = g.akaSets()
		}
		td.List = append(td.List, sets...)
		for _, st := range sets {
			if g.chance(0.6) {
				t := int(st.U(1))
				n := len(st.B(2))
				switch t {
				case 3:
					n = 4 + g.r.Intn(13)
				case 23:
					n = g.r.Intn(301)
				case 134:
					n = g.pick(0, 20, 32)
				}
				td.List = append(td.List, L(A("SET"), N(uint64(t)), X(g.bytes(n))))
			}
		}
		c.c14Case(s1, L(A("EAP"), N(uint64(g.pick(1, 2))), N(g.u8()), td), idx, &corr)
		idx++
	}

	c.c14ManyCalls(g)
	s2 := c.suite("aka-setter-sizes", "oracle",
		"SetAttr on a prepared AKA' packet, exhaustive in the offered size 0..300 for RAND, AUTN, MAC (only 16 accepted), KDF (only 2), RES (only 4..16), KDF_INPUT (all accepted), and unsupported attribute types (0,4,5,10,12,13,14,22,25,133,135,200,255: always refused); the packet holds a previous valid value of that attribute in every second case; accepted => read-back equals the value and Marshal equals the independent encoder; refused => every attribute reads back unchanged and Marshal is unchanged; distinct by (packet, type, value)")
	idx = 0
	for rep := 0; rep < c.n(1, 8); rep++ {
		for _, t := range []int{1, 2, 11, 24, 3, 23} {
			for n := 0; n <= 300; n++ {
				prev := L(A("AKA"), N(uint64(g.pick(1, 2, 4, 5, 12, 13, 14))))
				for _, st := range g.akaSets() {
					if int(st.U(1)) != t {
						prev.List = append(prev.List, st)
					}
				}
				if (n+rep)%2 == 0 {
					var pv []byte
					switch t {
					case 1, 2, 11:
						pv = g.bytes(16)
					case 24:
						pv = g.bytes(2)
					case 3:
						pv = g.bytes(4 + g.r.Intn(13))
					case 23:
						pv = g.bytes(g.r.Intn(301))
					}
					prev.List = append(prev.List, L(A("SET"), N(uint64(t)), X(pv)))
				}
				c.c14Setter(s2, prev, t, g.bytes(n), idx, &corrSet)
				idx++
			}
		}
		for _, t := range []int{0, 4, 5, 10, 12, 13, 14, 22, 25, 133, 135, 200, 255} {
			for _, n := range []int{0, 1, 2, 4, 14, 16, 20, 32, 300, g.r.Intn(301)} {
				prev := L(A("AKA"), N(uint64(g.pick(1, 2, 4, 5, 12, 13, 14))))
				prev.List = append(prev.List, g.akaSets()...)
				c.c14Setter(s2, prev, t, g.bytes(n), idx, &corrSet)
				idx++
			}
		}
		for _, n := range []int{0, 20, 32} {
			prev := L(A("AKA"), N(uint64(g.pick(1, 2, 4, 5, 12, 13, 14))))
			prev.List = append(prev.List, g.akaSets()...)
			c.c14Setter(s2, prev, 134, g.bytes(n), idx, &corrSet)
			idx++
		}
	}

	// out-of-domain inputs for the model tie only: empty Identity/Notification/Nak, refused SETs
	for i := 0; i < c.n(150, 3000); i++ {
		var sx *Sx
		switch i % 3 {
		case 0:
			sx = L(A("EAP"), N(uint64(g.pick(1, 2))), N(g.u8()), L(A(map[int]string{0: "ID", 1: "NOTIF", 2: "NAK"}[g.r.Intn(3)]), X(nil)))
		default:
			sx = L(A("EAP"), N(g.u8()), N(g.u8()), g.akaSetSeq())
		}
		corr = append(corr, corrCase{line: "enc eap " + sx.String(), goRes: goEncEap(sx), nontr: true, tags: []string{"op:enc", "out-of-domain"}})
	}
	for i := 0; i < c.n(400, 20000); i++ {
		td := g.akaSetSeq()
		corrSet = append(corrSet, corrCase{line: akasetLine(td), goRes: goAkaSet(td), nontr: len(td.List) > 2, tags: []string{"random-sequence"}})
	}

	s3 := c.suite("eap-codec-model-vs-impl", "correspondence",
		"every packet of eap-roundtrip-framing: `enc eap <input form>` (Go: SetAttr calls, then (*EAP).Marshal; `set-refused` when a SetAttr fails) and `dec eap <octets>` (Unmarshal, rendered with SubType/Marshal/GetAttr) must equal the Lean model's marshalEap / unmarshalEap; `spec-aka code id subtype (AT t xV)...`: the Go reference encoder must equal the Lean RFC specification Spec.encodeEapAka; plus inputs outside the domain (empty Identity/Notification/Nak, refused SETs); non-trivial = packet with method data")
	c.correspond(s3, corr)
	s4 := c.suite("aka-setattr-model-vs-impl", "correspondence",
		"`akaset <subtype> (SET t xV)...`: SetAttr sequences with refused calls tolerated (all cases of aka-setter-sizes and random sequences over supported and unsupported types, sizes 0..300): per-call ok/err and the final packet (SubType, Marshal, GetAttr of every type) must equal the Lean model's akaSetAttr fold; non-trivial = >= 1 call")
	c.correspond(s4, corrSet)
}

func goEncEap(sx *Sx) string {
	var e *eap.EAP
	r := guard(func() (string, error) {
		var err error
		e, err = buildEAP(sx)
		return "", err
	})
	if r.kind == "err" {
		return "set-refused"
	}
	if r.kind != "ok" {
		return r.String()
	}
	return marshalVia(0, e).String()
}

// ---------------------------------------------------------------------------
// C15

// why a well-formed packet is not canonical (first reason met): order | duplicate | reserved | padding
func nonCanonReason(w []byte) string {
	p, err := akaWalk(w)
	if err != nil {
		return "malformed"
	}
	seen := map[int]bool{}
	prev := -1
	for _, a := range p.attrs {
		if seen[a.t] {
			return "duplicate"
		}
		seen[a.t] = true
		if a.t < prev {
			return "order"
		}
		prev = a.t
	}
	for _, a := range p.attrs {
		res, _, pad, err := a.parts()
		if err != nil {
			return "malformed"
		}
		if (a.t == 1 || a.t == 2 || a.t == 11 || a.t == 134) && !allZero(res) {
			return "reserved"
		}
		if !allZero(pad) {
			return "padding"
		}
	}
	return ""
}

// violations of the known class are recorded once per (where, reason) so that they cannot crowd out others
type c15State struct {
	known map[string]bool
}

func (c *Ctx) c15Violate(st *c15State, s *SuiteStat, idx int, wire []byte, where, desc, line, exp, act string) {
	_, canon := wireClass(wire)
	class := "receiver-mac:canonical-wire"
	if !canon {
		class = "receiver-mac:noncanonical-wire"
		why := nonCanonReason(wire)
		s.Dist["known:receiver-mac:noncanonical-wire:"+why]++
		if st.known[where+why] {
			return
		}
		st.known[where+why] = true
		desc += " [wire form not canonical: " + why + "]"
	}
	c.violate(Violation{Suite: s.Name, Kind: "property", Index: idx, Class: class, Desc: desc, Input: line, Expected: exp, Actual: act})
}

func keyTag(key []byte) string {
	switch n := len(key); {
	case n == 0, n == 1, n == 32, n == 64, n == 65:
		return fmt.Sprintf("keylen:%d", n)
	case n < 32:
		return "keylen:2..31"
	case n < 64:
		return "keylen:33..63"
	default:
		return "keylen:66.."
	}
}

func calcMac(e *eap.EAP, key []byte) callRes {
	return guard(func() (string, error) {
		m, err := e.CalcEapAkaPrimeAtMAC(key)
		if err != nil {
			return "", err
		}
		return hx(m), nil
	})
}

// receiver side: Unmarshal, then CalcEapAkaPrimeAtMAC
func recvMac(key, wire []byte) (callRes, *eap.EAP) {
	e := new(eap.EAP)
	return guard(func() (string, error) {
		if err := e.Unmarshal(exact(wire)); err != nil {
			return "", err
		}
		m, err := e.CalcEapAkaPrimeAtMAC(key)
		if err != nil {
			return "", err
		}
		return hx(m), nil
	}), e
}

func otherKey(key []byte) []byte {
	if len(key) == 0 {
		return []byte{1}
	}
	k := append([]byte{}, key...)
	k[len(k)/2] ^= 0x10
	return k
}

func (g *Gen) akaKey() []byte {
	n := g.pick(32, 32, 32, 32, 0, 1, 16, 31, 33, 63, 64, 65, 100, g.r.Intn(131))
	k := make([]byte, n)
	g.r.Read(k)
	if g.chance(0.05) {
		k = make([]byte, n)
	}
	return k
}

// API-built packet.  case line: "mac-built x<key> <EAP input form with AKA' data>"
func (c *Ctx) c15Built(st *c15State, s *SuiteStat, key []byte, sx *Sx, idx int, corr *[]corrCase) {
	line := "mac-built " + hx(key) + " " + sx.String()
	setCase(line)
	td := sx.List[3]
	want := wantAttrs(td.List[2:])
	_, hadMac := want[11]
	s.add(line, true, append(akaSetTags(td), keyTag(key), fmt.Sprintf("old-mac:%v", hadMac))...)
	bad := func(class, desc, exp, act string) {
		c.violate(Violation{Suite: s.Name, Kind: "property", Index: idx, Class: class, Desc: desc, Input: line, Expected: clip(exp), Actual: clip(act)})
	}
	e, err := buildEAP(sx)
	if err != nil {
		bad("setter-refuses-valid:err", "SetAttr of a permitted size failed", "ok", "err")
		return
	}
	aka := e.EapTypeData.(*eap.EapAkaPrime)
	code, id, sub := byte(sx.U(1)), byte(sx.U(2)), byte(td.U(1))

	// (1) definition: reference over the independently encoded packet with a zero AT_MAC
	wz := map[int][]byte{}
	for t, v := range want {
		wz[t] = v
	}
	wz[11] = make([]byte, 16)
	refWire := refEapFrame(code, id, refAkaBody(sub, wz))
	hm := hmac.New(sha256.New, key)
	hm.Write(refWire)
	ref := "ok " + hx(hm.Sum(nil)[:16])
	got := calcMac(e, key)
	if corr != nil {
		*corr = append(*corr, corrCase{line: "akamac-built " + hx(key) + " " + sx.String(), goRes: got.String(), nontr: true, tags: []string{"op:akamac-built"}})
	}
	if got.String() != ref {
		bad("mac-definition:"+got.kind, "CalcEapAkaPrimeAtMAC differs from HMAC-SHA-256-128 over the packet with AT_MAC zeroed", ref, got.String())
		return
	}
	// the packet as Marshal() emits it now: AT_MAC located by the independent parser and zeroed
	after := marshalVia(0, e)
	if after.kind != "ok" {
		bad("marshal-fails:"+after.kind, "Marshal failed after CalcEapAkaPrimeAtMAC", "ok", after.String())
		return
	}
	if corr != nil {
		st8 := guard(func() (string, error) { return renderEAP(e).String(), nil })
		*corr = append(*corr, corrCase{line: "akamac-state " + hx(key) + " " + sx.String(), goRes: got.String() + " " + st8.val, nontr: true, tags: []string{"op:akamac-state"}})
	}
	if m2, _, ok := refMac(key, unhx(after.val)); !ok || "ok "+hx(m2) != ref {
		bad("mac-definition:emitted-wire", "HMAC over the packet as Marshal() emits it (AT_MAC zeroed by the independent parser) differs from the computed code", ref, "ok "+hx(m2))
		return
	}
	// independence of the old AT_MAC value, and repeatability
	if r := calcMac(e, key); r != got {
		bad("mac-depends-on-old-value", "second CalcEapAkaPrimeAtMAC on the same packet differs", got.String(), r.String())
		return
	}
	for _, old := range [][]byte{bytes.Repeat([]byte{0xff}, 16), unhx(got.val), nil} {
		sets := []*Sx{}
		for _, x := range td.List[2:] {
			if x.U(1) != 11 {
				sets = append(sets, x)
			}
		}
		if old != nil {
			sets = append(sets, L(A("SET"), N(11), X(old)))
		}
		alt := L(append([]*Sx{A("AKA"), td.List[1]}, sets...)...)
		e3, err := buildEAP(L(A("EAP"), sx.List[1], sx.List[2], alt))
		if err != nil {
			bad("setter-refuses-valid:err", "SetAttr of a permitted size failed", "ok", "err")
			return
		}
		if r := calcMac(e3, key); r != got {
			bad("mac-depends-on-old-value", "the code depends on the value AT_MAC held before (old value "+hx(old)+")", got.String(), r.String())
			return
		}
	}

	// (2) sender -> receiver
	mac := unhx(got.val)
	if r := guard(func() (string, error) { return "", aka.SetAttr(eap.AT_MAC, mac) }); r.kind != "ok" {
		bad("setter-refuses-valid:"+r.kind, "SetAttr(AT_MAC, computed code) failed", "ok", r.String())
		return
	}
	wr := marshalVia(0, e)
	if wr.kind != "ok" {
		bad("marshal-fails:"+wr.kind, "Marshal failed", "ok", wr.String())
		return
	}
	wire := unhx(wr.val)
	rm, sent, ok := refMac(key, wire)
	if !ok || !bytes.Equal(sent, mac) || !bytes.Equal(rm, mac) {
		bad("sender-mac", "the transmitted packet does not carry the code that the reference computes over it", hx(rm), hx(sent))
		return
	}
	rr, _ := recvMac(key, wire)
	if corr != nil {
		*corr = append(*corr, corrCase{line: "akamac " + hx(key) + " " + hx(wire), goRes: rr.String(), nontr: true, tags: []string{"op:akamac", "wire:built"}})
		*corr = append(*corr, corrCase{line: "spec-akamac " + hx(key) + " " + hx(wire), goRes: "ok " + hx(rm), nontr: true, tags: []string{"op:spec-akamac", "wire:built"}})
	}
	if rr.String() != "ok "+hx(mac) {
		c.c15Violate(st, s, idx, wire, "built:", "receiver of an API-built packet does not obtain the transmitted AT_MAC value", line, "ok "+hx(mac), rr.String())
		return
	}
	// a different key
	if r, _ := recvMac(otherKey(key), wire); r.kind != "ok" || r.val == hx(mac) {
		bad("mac-insensitive:key", "receiver obtains the transmitted code under a different key "+hx(otherKey(key)), "a different value", r.String())
		return
	}
	// every octet outside the MAC value, one bit flipped
	macOff := -1
	if p, err := akaWalk(wire); err == nil {
		for _, a := range p.attrs {
			if a.t == 11 {
				macOff = a.off + 4
			}
		}
	}
	for i := range wire {
		if macOff >= 0 && i >= macOff && i < macOff+16 {
			continue
		}
		alt := append([]byte{}, wire...)
		alt[i] ^= 1 << uint(i%8)
		r, _ := recvMac(key, alt)
		wf, _ := wireClass(alt)
		switch {
		case r.kind != "ok":
			s.Dist["flip:"+r.kind]++
			if r.kind == "panic" {
				bad("panic:receiver", "Unmarshal / CalcEapAkaPrimeAtMAC panicked on an altered packet "+hx(alt)+": "+r.val, "value or error", "panic")
				return
			}
		case !wf:
			s.Dist["flip:decodes-but-malformed"]++
		default:
			s.Dist["flip:decodes"]++
			if r.val == hx(mac) {
				c.c15Violate(st, s, idx, alt, "flip:",
					fmt.Sprintf("octet %d of the transmitted packet altered, the receiver still obtains the transmitted AT_MAC value (altered packet %s)", i, hx(alt)),
					line, "a value other than "+hx(mac), r.String())
			}
		}
	}
}

// ---- independent-encoder packets

// akaWireMac: a well-formed EAP-AKA' packet written without the library, carrying the reference AT_MAC under key.
// tame: ascending unique types, zero reserved, zero padding (possibly more padding than necessary, possibly
// attributes the library has no special reader for).  wild: arbitrary order, duplicates, non-zero reserved
// octets in RAND/AUTN/MAC/CHECKCODE, non-zero padding.
func (g *Gen) akaWireMac(key []byte, wild bool) []byte {
	type at struct {
		t   int
		raw []byte
	}
	mk := func(t int) at {
		switch t {
		case 1, 2, 11:
			a := []byte{byte(t), 5, 0, 0}
			if wild && g.chance(0.25) {
				a[2], a[3] = byte(g.r.Intn(256)), byte(1+g.r.Intn(255))
			}
			return at{t, append(a, g.bytes(16)...)}
		case 3, 23:
			n := 4 + g.r.Intn(13)
			if t == 23 {
				n = g.pick(0, 1, 2, 3, 4, 5, 11, 32, 100, 247, 248, 251, 252, 253, 255, 256, 299, 300, g.r.Intn(301))
			}
			words := (4 + n + 3) / 4
			if g.chance(0.15) { // more padding than necessary
				words += 1 + g.r.Intn(2)
			}
			a := []byte{byte(t), byte(words), byte(n * 8 >> 8), byte(n * 8)}
			a = append(a, g.bytes(n)...)
			pad := make([]byte, 4*words-4-n)
			if wild && len(pad) > 0 && g.chance(0.3) {
				pad[g.r.Intn(len(pad))] = byte(1 + g.r.Intn(255))
			}
			return at{t, append(a, pad...)}
		case 24:
			return at{t, append([]byte{24, 1}, g.bytes(2)...)}
		case 134:
			n := g.pick(0, 20, 32)
			a := []byte{134, byte((4 + n) / 4), 0, 0}
			if wild && g.chance(0.2) {
				a[3] = byte(1 + g.r.Intn(255))
			}
			return at{t, append(a, g.bytes(n)...)}
		case 4: // AT_AUTS: 14 octets, no reserved field
			return at{t, append([]byte{4, 4}, g.bytes(14)...)}
		case 12, 22: // AT_NOTIFICATION / AT_CLIENT_ERROR_CODE: 16-bit code
			return at{t, append([]byte{byte(t), 1}, g.bytes(2)...)}
		default: // 14 AT_IDENTITY: actual length in octets | identity | zero padding
			n := 1 + g.r.Intn(40)
			words := (4 + n + 3) / 4
			a := append([]byte{14, byte(words), byte(n >> 8), byte(n)}, g.bytes(n)...)
			return at{t, append(a, make([]byte, 4*words-4-n)...)}
		}
	}
	types := []int{1, 2, 3, 24, 23, 134}
	g.r.Shuffle(len(types), func(i, j int) { types[i], types[j] = types[j], types[i] })
	types = types[:g.r.Intn(len(types)+1)]
	if g.chance(0.3) {
		types = append(types, g.pick(4, 12, 14, 22))
	}
	types = append(types, 11)
	var attrs []at
	for _, t := range types {
		attrs = append(attrs, mk(t))
	}
	if wild {
		if g.chance(0.35) { // a duplicate of an attribute other than AT_MAC
			for try := 0; try < 4; try++ {
				if a := attrs[g.r.Intn(len(attrs))]; a.t != 11 {
					attrs = append(attrs, mk(a.t))
					break
				}
			}
		}
		g.r.Shuffle(len(attrs), func(i, j int) { attrs[i], attrs[j] = attrs[j], attrs[i] })
		if g.chance(0.3) { // the order real challenges use: RAND AUTN KDF KDF_INPUT MAC
			sort.SliceStable(attrs, func(i, j int) bool {
				rank := func(t int) int {
					if t == 24 {
						return 22
					}
					return t
				}
				return rank(attrs[i].t) < rank(attrs[j].t)
			})
		}
	} else {
		sort.SliceStable(attrs, func(i, j int) bool { return attrs[i].t < attrs[j].t })
	}
	body := []byte{50, byte(g.pick(1, 2, 4, 5, 12, 13, 14, g.r.Intn(256))), 0, 0}
	for _, a := range attrs {
		body = append(body, a.raw...)
	}
	w := refEapFrame(byte(g.pick(1, 2)), byte(g.r.Intn(256)), body)
	mac, _, ok := refMac(key, w)
	if !ok {
		panic("akaWireMac: generated packet does not parse")
	}
	p, _ := akaWalk(w)
	for _, a := range p.attrs {
		if a.t == 11 {
			copy(w[a.off+4:a.off+20], mac)
		}
	}
	poolAdd(w)
	return w
}

// received packet.  case line: "mac-wire x<key> x<packet>"
func (c *Ctx) c15Wire(st *c15State, s *SuiteStat, key, wire []byte, idx int, corr *[]corrCase) {
	line := "mac-wire " + hx(key) + " " + hx(wire)
	setCase(line)
	wf, canon := wireClass(wire)
	rm, sent, ok := refMac(key, wire)
	if !wf || !ok || !bytes.Equal(rm, sent) {
		s.add(line, false, "skipped:not-a-well-formed-packet-with-its-mac")
		return
	}
	s.add(line, true, fmt.Sprintf("canonical:%v", canon), keyTag(key))
	r, _ := recvMac(key, wire)
	if corr != nil {
		*corr = append(*corr, corrCase{line: "akamac " + hx(key) + " " + hx(wire), goRes: r.String(), nontr: true, tags: []string{"op:akamac", "wire:independent", fmt.Sprintf("wire:independent-canonical:%v", canon)}})
		*corr = append(*corr, corrCase{line: "spec-akamac " + hx(key) + " " + hx(wire), goRes: "ok " + hx(rm), nontr: true, tags: []string{"op:spec-akamac", "wire:independent"}})
	}
	if r.String() != "ok "+hx(sent) {
		s.Dist[fmt.Sprintf("receiver-disagrees-canonical:%v", canon)]++
		c.c15Violate(st, s, idx, wire, "wire:", "receiver of a well-formed packet from an independent encoder does not obtain the transmitted AT_MAC value", line, "ok "+hx(sent), r.String())
		return
	}
	s.Dist[fmt.Sprintf("receiver-agrees-canonical:%v", canon)]++
	if r2, _ := recvMac(otherKey(key), wire); r2.kind != "ok" || r2.val == hx(sent) {
		c.violate(Violation{Suite: s.Name, Kind: "property", Index: idx, Class: "mac-insensitive:key", Desc: "receiver obtains the transmitted code under a different key", Input: line, Expected: "a different value", Actual: r2.String()})
	}
}

func (g *Gen) c15Eap() *Sx {
	td := L(A("AKA"), N(uint64(g.pick(1, 2, 4, 5, 12, 13, 14, g.r.Intn(256)))))
	td.List = append(td.List, g.akaSets()...)
	code := uint64(g.pick(1, 2))
	if g.chance(0.1) {
		code = g.u8()
	}
	return L(A("EAP"), N(code), N(g.u8()), td)
}

func propC15(c *Ctx) {
	g := NewGen(c.seed)
	if c.replay != nil {
		c.replayEap()
		return
	}
	st := &c15State{known: map[string]bool{}}
	var corr []corrCase

	s1 := c.suite("mac-built-packets", "oracle",
		"EAP-AKA' packets built through the API (any code/identifier/subtype, any subset of the settable attributes incl. values needing padding, AT_MAC absent or holding an arbitrary old value) x keys of 32 octets and of 0,1,16,31,33,63,64,65,100 and random lengths: CalcEapAkaPrimeAtMAC == stdlib HMAC-SHA-256-128 over the independently encoded packet with a zero AT_MAC, and over the packet as Marshal() emits it with AT_MAC zeroed by the independent parser; same result with other old AT_MAC values and on a second call; then SetAttr(AT_MAC), Marshal, Unmarshal, CalcEapAkaPrimeAtMAC == transmitted value; different under another key; for every octet outside the MAC value one bit flipped: if the altered packet decodes and is well-formed the receiver must not obtain the transmitted value (tags flip:*); distinct by (key, packet)")
	for i := 0; i < c.n(400, 12000); i++ {
		c.c15Built(st, s1, g.akaKey(), g.c15Eap(), i, &corr)
	}

	s2 := c.suite("mac-independent-encoder", "oracle",
		"well-formed EAP-AKA' packets written without the library (any subset of RAND AUTN RES KDF KDF_INPUT CHECKCODE, optionally AUTS/NOTIFICATION/IDENTITY/CLIENT_ERROR_CODE, always AT_MAC = reference code over the wire form; half of them tame = ascending unique types, zero reserved and padding octets, possibly more padding than necessary; half wild = arbitrary order, duplicates, non-zero reserved octets in RAND/AUTN/MAC/CHECKCODE, non-zero padding): Unmarshal then CalcEapAkaPrimeAtMAC must return the transmitted value; a disagreement is classified by the canonical-wire predicate computed from the octets; distinct by (key, packet)")
	for i := 0; i < c.n(3000, 150000); i++ {
		key := g.akaKey()
		c.c15Wire(st, s2, key, g.akaWireMac(key, i%2 == 1), i, &corr)
	}

	// model tie only: packets that are not EAP-AKA', without method data, malformed
	for i := 0; i < c.n(300, 6000); i++ {
		key := g.akaKey()
		var w []byte
		switch i % 4 {
		case 0:
			w = g.baseFor("eap")
		case 1:
			w = g.mutate(g.akaWireMac(key, g.chance(0.5)))
		case 2:
			w = g.mutate(g.baseFor("eap"))
		default:
			w = g.akaWire()
		}
		if len(w) > 4000 {
			continue
		}
		r, _ := recvMac(key, w)
		corr = append(corr, corrCase{line: "akamac " + hx(key) + " " + hx(w), goRes: r.String(), nontr: len(w) > 4, tags: []string{"op:akamac", "wire:arbitrary", "outcome:" + r.kind}})
		if i%4 == 0 || i%4 == 3 {
			sx := g.eap()
			gr := guard(func() (string, error) {
				e, err := buildEAP(sx)
				if err != nil {
					return "", err
				}
				m, err := e.CalcEapAkaPrimeAtMAC(key)
				if err != nil {
					return "", err
				}
				return hx(m), nil
			})
			corr = append(corr, corrCase{line: "akamac-built " + hx(key) + " " + sx.String(), goRes: gr.String(), nontr: true, tags: []string{"op:akamac-built", "any-method", "outcome:" + gr.kind}})
		}
	}

	s3 := c.suite("akamac-model-vs-impl", "correspondence",
		"`akamac-built k <EAP input form>` (CalcEapAkaPrimeAtMAC on a built packet, any method incl. none), `akamac-state` (same plus the packet as the call leaves it), `akamac k <octets>` (Unmarshal then CalcEapAkaPrimeAtMAC; built, independent-encoder, mutated and non-AKA' packets) must equal the Lean model calcEapAkaPrimeAtMAC; `spec-akamac k <octets>`: the Go reference code must equal the Lean RFC specification Spec.atMac; non-trivial = packet with method data")
	c.correspond(s3, corr)
}

// ---------------------------------------------------------------------------
// replay of one recorded case (Violation.Input)

func (c *Ctx) replayEap() {
	s := c.suite("replay", "oracle", "replay of one recorded case")
	in := c.replay.Input
	st := &c15State{known: map[string]bool{}}
	sp := strings.SplitN(in, " ", 2)
	if len(sp) != 2 {
		c.note("replay: unrecognised input")
		return
	}
	switch sp[0] {
	case "eap-case":
		if sx, err := ParseSx(sp[1]); err == nil {
			c.c14Case(s, sx, 0, nil)
		}
	case "setter-case":
		if sx, err := ParseSx("(" + sp[1] + ")"); err == nil && len(sx.List) == 3 {
			c.c14Setter(s, sx.List[0], int(sx.U(1)), sx.B(2), 0, nil)
		}
	case "mac-built":
		f := strings.SplitN(sp[1], " ", 2)
		if sx, err := ParseSx(f[1]); err == nil {
			c.c15Built(st, s, unhx(f[0]), sx, 0, nil)
		}
	case "mac-wire":
		f := strings.Fields(sp[1])
		c.c15Wire(st, s, unhx(f[0]), unhx(f[1]), 0, nil)
	default:
		c.note("replay: unrecognised input")
	}
}
