package main

// SA construction, deterministic random source, spy cipher, and an independent
// (stdlib-only) reference of the RFC 7296 §3.14 SK payload.

import (
	"crypto/aes"
	"crypto/cipher"
	"crypto/hmac"
	"crypto/md5"
	crand "crypto/rand"
	"crypto/sha1"
	"crypto/sha256"
	"encoding/binary"
	"errors"
	"fmt"
	"hash"
	"io"

	"github.com/free5gc/ike/message"
	"github.com/free5gc/ike/security"
	ikeCrypto "github.com/free5gc/ike/security/IKECrypto"
	"github.com/free5gc/ike/security/dh"
	"github.com/free5gc/ike/security/encr"
	"github.com/free5gc/ike/security/integ"
	"github.com/free5gc/ike/security/prf"
)

var encrNames = []string{"ENCR_AES_CBC_128", "ENCR_AES_CBC_192", "ENCR_AES_CBC_256"}
var integNames = []string{"AUTH_HMAC_MD5_96", "AUTH_HMAC_SHA1_96", "AUTH_HMAC_SHA2_256_128"}
var prfNames = []string{"PRF_HMAC_MD5", "PRF_HMAC_SHA1", "PRF_HMAC_SHA2_256"}
var dhNames = []string{"DH_1024_BIT_MODP", "DH_2048_BIT_MODP"}

type suite struct {
	e, i, p int // indices into encrNames / integNames / prfNames
}

func (s suite) String() string { return fmt.Sprintf("%d/%d/%d", s.e, s.i, s.p) }

func refHash(i int) func() hash.Hash {
	switch i {
	case 0:
		return md5.New
	case 1:
		return sha1.New
	}
	return sha256.New
}

var refIntegKeyLen = []int{16, 20, 32}
var refIntegOutLen = []int{12, 12, 16}
var refEncrKeyLen = []int{16, 24, 32}
var refPrfLen = []int{16, 20, 32}

type saKeys struct {
	st                        suite
	d, ai, ar, ei, er, pi, pr []byte
}

func (g *Gen) saKeys(st suite) *saKeys {
	k := &saKeys{st: st}
	k.d = g.keyBytes(refPrfLen[st.p])
	k.ai = g.keyBytes(refIntegKeyLen[st.i])
	k.ar = g.keyBytes(refIntegKeyLen[st.i])
	k.ei = g.keyBytes(refEncrKeyLen[st.e])
	k.er = g.keyBytes(refEncrKeyLen[st.e])
	k.pi = g.keyBytes(refPrfLen[st.p])
	k.pr = g.keyBytes(refPrfLen[st.p])
	// direction keys must differ for the reflection clause to be meaningful
	for string(k.ai) == string(k.ar) {
		k.ar = g.keyBytesRandom(len(k.ar))
	}
	return k
}

func (g *Gen) keyBytesRandom(n int) []byte {
	b := make([]byte, n)
	g.r.Read(b)
	return b
}

// keys issued so far, by length: now and then the next key is an earlier one with a single octet changed
// (related keys: whatever is indexed, cached or compared by a part of the key sees a collision)
var issuedKeys = map[int][]byte{}

func (g *Gen) keyBytes(n int) (out []byte) {
	defer func() { issuedKeys[n] = append([]byte{}, out...) }()
	if prev, ok := issuedKeys[n]; ok && n > 0 && g.r.Intn(6) == 0 {
		b := append([]byte{}, prev...)
		p := g.r.Intn(n)
		if g.chance(0.4) {
			p = n - 1 - g.r.Intn((n+1)/2) // in the second half
		}
		b[p] ^= byte(1 + g.r.Intn(255))
		return b
	}
	switch g.r.Intn(12) {
	case 0:
		return make([]byte, n)
	case 1:
		b := make([]byte, n)
		for i := range b {
			b[i] = 0xff
		}
		return b
	}
	return g.keyBytesRandom(n)
}

func (k *saKeys) line() string {
	return fmt.Sprintf("%d %d %d %s %s %s %s %s %s %s", k.st.e, k.st.i, k.st.p, hx(k.d), hx(k.ai), hx(k.ar), hx(k.ei), hx(k.er), hx(k.pi), hx(k.pr))
}

// newSA builds a fresh IKESAKey object holding exactly these keys.
func newSA(k *saKeys) *security.IKESAKey {
	sa := &security.IKESAKey{
		DhInfo:    dh.StrToType(dhNames[1]),
		EncrInfo:  encr.StrToType(encrNames[k.st.e]),
		IntegInfo: integ.StrToType(integNames[k.st.i]),
		PrfInfo:   prf.StrToType(prfNames[k.st.p]),
	}
	cp := func(b []byte) []byte { return append([]byte{}, b...) }
	sa.SK_d, sa.SK_ai, sa.SK_ar, sa.SK_ei, sa.SK_er, sa.SK_pi, sa.SK_pr = cp(k.d), cp(k.ai), cp(k.ar), cp(k.ei), cp(k.er), cp(k.pi), cp(k.pr)
	sa.Prf_d = sa.PrfInfo.Init(sa.SK_d)
	sa.Integ_i = sa.IntegInfo.Init(sa.SK_ai)
	sa.Integ_r = sa.IntegInfo.Init(sa.SK_ar)
	var err error
	if sa.Encr_i, err = sa.EncrInfo.NewCrypto(sa.SK_ei); err != nil {
		panic(err)
	}
	if sa.Encr_r, err = sa.EncrInfo.NewCrypto(sa.SK_er); err != nil {
		panic(err)
	}
	sa.Prf_i = sa.PrfInfo.Init(sa.SK_pi)
	sa.Prf_r = sa.PrfInfo.Init(sa.SK_pr)
	return sa
}

// ---------------------------------------------------------------------------
// deterministic random source installed as crypto/rand.Reader

type detReader struct {
	buf    []byte
	pos    int
	reads  int
	failAt int // index of the Read call that fails; -1: never
	served []byte
}

var errInjected = errors.New("injected random source failure")

func (r *detReader) Read(p []byte) (int, error) {
	idx := r.reads
	r.reads++
	if idx == r.failAt {
		return 0, errInjected
	}
	for i := range p {
		p[i] = r.buf[r.pos%len(r.buf)]
		r.pos++
	}
	r.served = append(r.served, p...)
	return len(p), nil
}

var realRandReader = crand.Reader

func withRand(buf []byte, failAt int, f func()) *detReader {
	r := &detReader{buf: buf, failAt: failAt}
	old := crand.Reader
	crand.Reader = r
	defer func() { crand.Reader = old }()
	f()
	return r
}

var _ io.Reader = (*detReader)(nil)

// chunkReader delivers the same octet stream as detReader but in pieces: every Read returns at most `max` octets
// with a nil error (what io.Reader allows), and, if failAfter >= 0, an error once that many octets were served
// (a short read followed by a failure)
type chunkReader struct {
	buf       []byte
	pos       int
	max       int
	failAfter int
}

func (r *chunkReader) Read(p []byte) (int, error) {
	if r.failAfter >= 0 && r.pos >= r.failAfter {
		return 0, errInjected
	}
	n := len(p)
	if n > r.max {
		n = r.max
	}
	if r.failAfter >= 0 && r.pos+n > r.failAfter {
		n = r.failAfter - r.pos
	}
	for i := 0; i < n; i++ {
		p[i] = r.buf[r.pos%len(r.buf)]
		r.pos++
	}
	return n, nil
}

func withChunkRand(buf []byte, max, failAfter int, f func()) {
	old := crand.Reader
	crand.Reader = &chunkReader{buf: buf, max: max, failAfter: failAfter}
	defer func() { crand.Reader = old }()
	f()
}

// ---------------------------------------------------------------------------
// spy cipher: counts Decrypt calls

type spyCrypto struct {
	inner    ikeCrypto.IKECrypto
	decrypts int
	encrypts int
}

func (s *spyCrypto) Encrypt(p []byte) ([]byte, error) { s.encrypts++; return s.inner.Encrypt(p) }
func (s *spyCrypto) Decrypt(c []byte) ([]byte, error) { s.decrypts++; return s.inner.Decrypt(c) }

func installSpies(sa *security.IKESAKey) (*spyCrypto, *spyCrypto) {
	si := &spyCrypto{inner: sa.Encr_i}
	sr := &spyCrypto{inner: sa.Encr_r}
	sa.Encr_i, sa.Encr_r = si, sr
	return si, sr
}

// ---------------------------------------------------------------------------
// independent reference of RFC 7296 §3.14 using the standard library only

type refSK struct {
	hdr   []byte // 28 octets
	next  uint8
	iv    []byte
	ct    []byte
	icv   []byte
	plain []byte // inner payload chain
	pad   []byte // padding octets, without the pad-length octet
}

func (k *saKeys) dirKeys(sender message.Role) (ke, ka []byte) {
	if sender == message.Role_Initiator {
		return k.ei, k.ai
	}
	return k.er, k.ar
}

// refBuildSK builds a protected message from header fields, inner chain, IV and padding.
func refBuildSK(k *saKeys, sender message.Role, hdrFields []byte, firstInner uint8, inner, iv, pad []byte) []byte {
	ke, ka := k.dirKeys(sender)
	pt := append(append(append([]byte{}, inner...), pad...), byte(len(pad)))
	if len(pt)%16 != 0 {
		panic("refBuildSK: bad padding")
	}
	blk, _ := aes.NewCipher(ke)
	ct := make([]byte, len(pt))
	cipher.NewCBCEncrypter(blk, iv).CryptBlocks(ct, pt)
	icvLen := refIntegOutLen[k.st.i]
	total := 28 + 4 + 16 + len(ct) + icvLen
	msg := append([]byte{}, hdrFields[:28]...)
	msg[16] = 46
	binary.BigEndian.PutUint32(msg[24:28], uint32(total))
	sk := []byte{firstInner, 0, 0, 0}
	binary.BigEndian.PutUint16(sk[2:4], uint16(total-28))
	msg = append(msg, sk...)
	msg = append(msg, iv...)
	msg = append(msg, ct...)
	m := hmac.New(refHash(k.st.i), ka)
	m.Write(msg)
	msg = append(msg, m.Sum(nil)[:icvLen]...)
	return msg
}

// refSealRaw: header + SK payload whose body is `enc` taken as it is (IV and ciphertext, however malformed)
// followed by a correct checksum: a message that authenticates but need not decrypt
func refSealRaw(k *saKeys, sender message.Role, hdrFields []byte, firstInner uint8, enc []byte) []byte {
	_, ka := k.dirKeys(sender)
	icvLen := refIntegOutLen[k.st.i]
	total := 28 + 4 + len(enc) + icvLen
	msg := append([]byte{}, hdrFields[:28]...)
	msg[16] = 46
	binary.BigEndian.PutUint32(msg[24:28], uint32(total))
	sk := []byte{firstInner, 0, 0, 0}
	binary.BigEndian.PutUint16(sk[2:4], uint16(total-28))
	msg = append(msg, sk...)
	msg = append(msg, enc...)
	m := hmac.New(refHash(k.st.i), ka)
	m.Write(msg)
	return append(msg, m.Sum(nil)[:icvLen]...)
}

// a message of `sender` with a CORRECT checksum whose encrypted part is malformed in one of the ways a
// receiver has to survive: no / short IV, empty or misaligned ciphertext, pad length past the plaintext,
// undecodable inner chain
func (g *Gen) authMalformed(k *saKeys, sender message.Role) ([]byte, string) {
	hdr := make([]byte, 28)
	g.r.Read(hdr[:16])
	hdr[17], hdr[18], hdr[19] = 0x20, byte(g.pick(34, 35, 36, 37)), byte(g.pick(0, 8, 32, 40))
	binary.BigEndian.PutUint32(hdr[20:24], uint32(g.r.Intn(5)))
	ke, _ := k.dirKeys(sender)
	iv := g.keyBytesRandom(16)
	first := uint8(g.pick(0, 33, 39, 41, 48))
	switch g.r.Intn(7) {
	case 0:
		return refSealRaw(k, sender, hdr, first, iv), "iv-only"
	case 1:
		n := 1 + g.r.Intn(70)
		if n%16 == 0 {
			n++
		}
		return refSealRaw(k, sender, hdr, first, append(iv, g.keyBytesRandom(n)...)), "misaligned"
	case 2:
		return refSealRaw(k, sender, hdr, first, g.keyBytesRandom(g.r.Intn(16))), "short-iv"
	case 3:
		return refSealRaw(k, sender, hdr, first, nil), "empty"
	case 4:
		pt := g.keyBytesRandom(16 * (1 + g.r.Intn(3)))
		pt[len(pt)-1] = byte(len(pt) + g.r.Intn(256-len(pt)))
		return refSealRaw(k, sender, hdr, first, append(iv, refCBCEncrypt(ke, iv, pt)...)), "padlen-too-large"
	case 5:
		pt := g.keyBytesRandom(16 * (1 + g.r.Intn(3)))
		pt[len(pt)-1] = byte(len(pt) - 1) // everything is padding
		return refSealRaw(k, sender, hdr, first, append(iv, refCBCEncrypt(ke, iv, pt)...)), "all-padding"
	default:
		pt := g.bytes(16 * (1 + g.r.Intn(4)))
		pt[len(pt)-1] = byte(g.r.Intn(len(pt)))
		return refSealRaw(k, sender, hdr, first, append(iv, refCBCEncrypt(ke, iv, pt)...)), "garbage-inner"
	}
}

// selfRefShortSK: a datagram header | SK payload whose body is SHORTER than the checksum and whose last icv octets —
// which then reach back into the SK payload header — are nevertheless the truncated HMAC over everything before
// them (found by searching Message IDs; the octets of the tail that are fixed by the format, the payload length and,
// for the longest search, nothing else, have to come out of the HMAC by themselves).  body = icv-4 .. icv-1 octets.
// nil if the search (2^19 tries) fails.
func selfRefShortSK(g *Gen, k *saKeys, sender message.Role, body int) []byte {
	_, ka := k.dirKeys(sender)
	icv := refIntegOutLen[k.st.i]
	if body < icv-4 || body >= icv || body < 0 {
		return nil
	}
	total := 28 + 4 + body
	msg := make([]byte, total)
	g.r.Read(msg[:16])
	msg[16], msg[17], msg[18], msg[19] = 46, 0x20, byte(g.pick(34, 35, 36, 37)), byte(g.pick(0, 8, 32, 40))
	binary.BigEndian.PutUint32(msg[24:28], uint32(total))
	msg[28], msg[29] = byte(g.pick(0, 33, 41, 43)), 0
	binary.BigEndian.PutUint16(msg[30:32], uint16(4+body))
	cut := total - icv // the checksum field as the receiver sees it: msg[cut:]
	fixed := append([]byte{}, msg...)
	m := hmac.New(refHash(k.st.i), ka)
	for try := uint32(0); try < 1<<19; try++ {
		binary.BigEndian.PutUint32(msg[20:24], try)
		m.Reset()
		m.Write(msg[:cut])
		tag := m.Sum(nil)[:icv]
		ok := true
		for i := cut; i < 32 && ok; i++ { // tail octets inside the SK payload header
			switch i {
			case 30, 31: // payload length: has to be what the format says
				ok = tag[i-cut] == fixed[i]
			}
		}
		if ok {
			copy(msg[cut:], tag)
			msg[30], msg[31] = fixed[30], fixed[31]
			return msg
		}
	}
	return nil
}

// refOpenSK verifies, decrypts and splits a protected message.
func refOpenSK(k *saKeys, sender message.Role, msg []byte) (*refSK, error) {
	ke, ka := k.dirKeys(sender)
	icvLen := refIntegOutLen[k.st.i]
	if len(msg) < 28+4+16+16+icvLen {
		return nil, fmt.Errorf("ref: too short")
	}
	if int(binary.BigEndian.Uint32(msg[24:28])) != len(msg) {
		return nil, fmt.Errorf("ref: header length %d != datagram size %d", binary.BigEndian.Uint32(msg[24:28]), len(msg))
	}
	if msg[16] != 46 {
		return nil, fmt.Errorf("ref: first payload is %d, not SK", msg[16])
	}
	if int(binary.BigEndian.Uint16(msg[30:32])) != len(msg)-28 {
		return nil, fmt.Errorf("ref: SK payload length %d != %d", binary.BigEndian.Uint16(msg[30:32]), len(msg)-28)
	}
	if msg[29] != 0 {
		return nil, fmt.Errorf("ref: SK critical/reserved octet %#x", msg[29])
	}
	m := hmac.New(refHash(k.st.i), ka)
	m.Write(msg[:len(msg)-icvLen])
	if !hmac.Equal(m.Sum(nil)[:icvLen], msg[len(msg)-icvLen:]) {
		return nil, fmt.Errorf("ref: checksum mismatch")
	}
	r := &refSK{hdr: msg[:28], next: msg[28], iv: msg[32:48], ct: msg[48 : len(msg)-icvLen], icv: msg[len(msg)-icvLen:]}
	if len(r.ct)%16 != 0 || len(r.ct) == 0 {
		return nil, fmt.Errorf("ref: ciphertext length %d", len(r.ct))
	}
	blk, _ := aes.NewCipher(ke)
	pt := make([]byte, len(r.ct))
	cipher.NewCBCDecrypter(blk, r.iv).CryptBlocks(pt, r.ct)
	pl := int(pt[len(pt)-1])
	if pl+1 > len(pt) {
		return nil, fmt.Errorf("ref: pad length %d", pl)
	}
	r.plain = pt[:len(pt)-1-pl]
	r.pad = pt[len(pt)-1-pl : len(pt)-1]
	return r, nil
}

func refCBCEncrypt(key, iv, pt []byte) []byte {
	blk, err := aes.NewCipher(key)
	if err != nil {
		panic(err)
	}
	out := make([]byte, 16+len(pt))
	copy(out, iv)
	cipher.NewCBCEncrypter(blk, iv).CryptBlocks(out[16:], pt)
	return out
}

func refCBCDecrypt(key, iv, ct []byte) []byte {
	blk, err := aes.NewCipher(key)
	if err != nil {
		panic(err)
	}
	out := make([]byte, len(ct))
	cipher.NewCBCDecrypter(blk, iv).CryptBlocks(out, ct)
	return out
}

// a key set of the same suite in which every key is drawn at random and differs from the corresponding key of k
// (the special all-zero / all-0xff keys of saKeys could coincide with k's: then the set would not be "unrelated")
func (g *Gen) saKeysUnrelated(k *saKeys) *saKeys {
	for {
		u := &saKeys{st: k.st, d: g.keyBytesRandom(len(k.d)), ai: g.keyBytesRandom(len(k.ai)), ar: g.keyBytesRandom(len(k.ar)),
			ei: g.keyBytesRandom(len(k.ei)), er: g.keyBytesRandom(len(k.er)), pi: g.keyBytesRandom(len(k.pi)), pr: g.keyBytesRandom(len(k.pr))}
		if string(u.ai) != string(k.ai) && string(u.ar) != string(k.ar) && string(u.ai) != string(k.ar) && string(u.ar) != string(k.ai) {
			return u
		}
	}
}
