package main

import (
	ike "github.com/free5gc/ike"
	"github.com/free5gc/ike/message"
	"github.com/free5gc/ike/security"
)

func ikeDecodeDecrypt(b []byte, h *message.IKEHeader, sa *security.IKESAKey, role message.Role) (*message.IKEMessage, error) {
	return ike.DecodeDecrypt(b, h, sa, role)
}

func ikeEncodeEncrypt(m *message.IKEMessage, sa *security.IKESAKey, role message.Role) ([]byte, error) {
	return ike.EncodeEncrypt(m, sa, role)
}

// akaWire: a well-formed EAP-AKA' packet produced without the library, attributes in arbitrary order
func (g *Gen) akaWire() []byte {
	var attrs [][]byte
	types := []int{1, 2, 3, 11, 24, 23, 134}
	g.r.Shuffle(len(types), func(i, j int) { types[i], types[j] = types[j], types[i] })
	for _, t := range types[:g.r.Intn(len(types)+1)] {
		switch t {
		case 1, 2, 11:
			a := []byte{byte(t), 5, 0, 0}
			if g.chance(0.2) {
				a[2], a[3] = byte(g.r.Intn(256)), byte(g.r.Intn(256))
			}
			attrs = append(attrs, append(a, g.bytes(16)...))
		case 3, 23:
			n := 4 + g.r.Intn(13)
			if t == 23 {
				n = g.pick(0, 1, 2, 3, 4, 5, 11, 32, 100, 247, 248, 251, 252, 253, 255, 256, 300, g.r.Intn(301))
			}
			v := g.bytes(n)
			tot := 4 + n
			pad := (4 - tot%4) % 4
			a := []byte{byte(t), byte((tot + pad) / 4), byte(n * 8 >> 8), byte(n * 8)}
			a = append(a, v...)
			attrs = append(attrs, append(a, make([]byte, pad)...))
		case 24:
			attrs = append(attrs, append([]byte{24, 1}, g.bytes(2)...))
		case 134:
			n := g.pick(0, 20, 32)
			attrs = append(attrs, append([]byte{134, byte((4 + n) / 4), 0, 0}, g.bytes(n)...))
		}
	}
	if g.chance(0.3) { // attributes of types the library keeps without interpreting them
		for n := 1 + g.r.Intn(3); n > 0; n-- {
			t := g.pick(4, 5, 6, 7, 10, 12, 13, 14, 129, 130, 132, 133, 135, 136, 200)
			words := 1 + g.r.Intn(4)
			attrs = append(attrs, append([]byte{byte(t), byte(words)}, g.keyBytesRandom(words*4-2)...))
		}
		g.r.Shuffle(len(attrs), func(i, j int) { attrs[i], attrs[j] = attrs[j], attrs[i] })
	}
	if g.chance(0.04) { // a large packet: many attributes incl. types without a reader, up to 255 words each (past 4096 and 8192 octets in total)
		total := 0
		for _, a := range attrs {
			total += len(a)
		}
		for n := 5 + g.r.Intn(60); n > 0 && total < 60000; n-- {
			t := g.pick(4, 5, 6, 7, 10, 12, 13, 14, 129, 130, 132, 133, 135, 136, 200)
			words := 1 + g.r.Intn(255)
			total += words * 4
			a := append([]byte{byte(t), byte(words)}, g.keyBytesRandom(words*4-2)...)
			attrs = append(attrs, a)
		}
		g.r.Shuffle(len(attrs), func(i, j int) { attrs[i], attrs[j] = attrs[j], attrs[i] })
		if g.chance(0.6) { // an attribute boundary exactly at a power-of-two offset (counted from the packet, the type octet or the first attribute)
			target := g.pick(4096, 4096, 8192, 2048, 16384) - g.pick(0, 4, 8)
			off := 0
			for i, a := range attrs {
				if off < target && off+len(a) >= target {
					if words := (target - off) / 4; words >= 1 && words <= 255 && (target-off)%4 == 0 && a[0] != 1 && a[0] != 2 && a[0] != 3 && a[0] != 11 && a[0] != 23 && a[0] != 24 && a[0] != 134 {
						attrs[i] = append([]byte{a[0], byte(words)}, g.keyBytesRandom(words*4-2)...)
					}
					break
				}
				off += len(a)
			}
		}
	}
	body := []byte{50, byte(g.pick(1, 2, 4, 5, 12, 13, 14)), 0, 0}
	for _, a := range attrs {
		body = append(body, a...)
	}
	l := 4 + len(body)
	defer func() { poolAdd(body) }()
	return append([]byte{byte(g.pick(1, 2)), byte(g.r.Intn(256)), byte(l >> 8), byte(l)}, body...)
}
