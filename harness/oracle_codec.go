package main

// C03 (round trip), C05 (RFC wire format, both directions), C12 (stability),
// C13 (unsupported payloads), C20 (ownership / purity / determinism).

import (
	"bytes"
	"encoding/binary"
	"fmt"
	"strings"

	"github.com/free5gc/ike/eap"
	"github.com/free5gc/ike/message"
	"github.com/free5gc/ike/security"
)

func init() {
	props["C03"] = propC03
	props["C05"] = propC05
	props["C12"] = propC12
	props["C13"] = propC13
	props["C20"] = propC20
}

func msgTags(sx *Sx) []string {
	tags := []string{fmt.Sprintf("npayloads:%d", min(len(sx.List[2].List), 9))}
	for _, p := range sx.List[2].List {
		tags = append(tags, "payload:"+p.Head())
	}
	return tags
}

// ---------------------------------------------------------------------------

func propC03(c *Ctx) {
	g := NewGen(c.seed)
	s := c.suite("roundtrip", "oracle",
		"type-directed messages of the encodable domain (15 payload kinds, nested SA/TS/CP/EAP/AKA', sizes biased to 0,1,15..17,247..257 and the 16-bit limit): Decode(Encode(m)) must render equal to m; non-trivial = >= 1 payload; distinct by message")
	var corr []corrCase
	n := c.n(3000, 150000)
	for i := 0; i < n; i++ {
		var sx *Sx
		if c.replay != nil && strings.HasPrefix(c.replay.Input, "enc msg ") {
			var err error
			if sx, err = ParseSx(c.replay.Input[len("enc msg "):]); err != nil {
				panic(err)
			}
			n = 1
		} else if i%40 == 0 {
			// one payload of each kind in turn, big sizes allowed
			sx = L(A("msg"), g.header(), L(g.payload(payloadKinds[(i/40)%len(payloadKinds)], true)))
		} else {
			sx = g.msg()
		}
		m := buildMsg(sx)
		want := renderMsg(m).String()
		line := "enc msg " + sx.String()
		nontr := len(sx.List[2].List) > 0
		er := encodeMsgRes(m)
		s.add(line, nontr, append(msgTags(sx), "encode:"+er.kind)...)
		if i < c.n(1200, 20000) && len(line) < 30000 {
			corr = append(corr, corrCase{line: line, goRes: er.String(), nontr: nontr, tags: []string{"op:enc"}})
		}
		if er.kind == "panic" {
			c.violate(Violation{Suite: s.Name, Kind: "property", Index: i, Class: "panic:encode", Desc: "Encode panicked: " + er.val, Input: line, Expected: "ok", Actual: "panic"})
			continue
		}
		if rr := encodeReused(buildMsg(sx)); rr != er {
			c.violate(Violation{Suite: s.Name, Kind: "property", Index: i, Class: "encode-depends-on-object-history",
				Desc:  "Encode of a message object that carried other messages before (fields and payload list reassigned) differs from Encode of a new object with the same fields and payloads (replay: re-run of the suite with this seed)",
				Input: line, Expected: clip(er.String()), Actual: clip(rr.String())})
		}
		if er.kind != "ok" {
			// beyond the 16-bit limits: outside the domain (the model must agree on that: correspondence).  Whether a
			// refusal is of that kind is decided by the independent reference encoder: a message it encodes is in the domain.
			if ref := refEncodeRes(sx, 0); ref.kind == "ok" {
				c.violate(Violation{Suite: s.Name, Kind: "property", Index: i, Class: "encode-refuses-domain-message",
					Desc: "Encode fails on a message of the encodable domain (the independent RFC 7296 encoder encodes it within all field widths)", Input: line, Expected: clip(ref.String()), Actual: er.String()})
			}
			continue
		}
		bs := unhx(er.val)
		dr := runDec(decoders()[0], bs)
		if i < c.n(1200, 20000) && len(bs) < 12000 {
			corr = append(corr, corrCase{line: "dec msg " + hx(bs), goRes: dr.String(), nontr: nontr, tags: []string{"op:dec"}})
		}
		if dr.kind != "ok" || dr.val != want {
			c.violate(Violation{Suite: s.Name, Kind: "property", Index: i, Class: classifyRoundtrip(sx, dr),
				Desc: "Decode(Encode(m)) differs from m", Input: line, Expected: clip("ok " + want), Actual: clip(dr.String())})
		}
	}
	// just outside the domain: what the encoder does there is no part of C03, but the model has to do the same
	// (the refusals are the guards every theorem's domain predicate mirrors)
	if c.replay == nil {
		for i := 0; i < c.n(400, 8000); i++ {
			sx := g.msgOutside()
			line := "enc msg " + sx.String()
			if len(line) > 30000 {
				continue
			}
			er := encodeMsgRes(buildMsg(sx))
			corr = append(corr, corrCase{line: line, goRes: er.String(), nontr: true, tags: []string{"op:enc-outside-domain", "encode:" + er.kind}})
		}
	}
	sc := c.suite("codec-model-vs-impl", "correspondence",
		"same messages: Go Encode bytes = Lean model bytes; Go Decode value = Lean model value; plus messages just outside the encodable domain (empty mandatory data, selector address length not matching its type, TLV attribute without value, SPI longer than 255, no attributes / selectors / transforms, version nibble > 15): Go Encode outcome (err or the octets) = model outcome; non-trivial = >= 1 payload")
	c.correspond(sc, corr)
}

func classifyRoundtrip(sx *Sx, dr callRes) string {
	return "roundtrip:" + dr.kind
}

// ---------------------------------------------------------------------------
// independent generic-payload-header / chain encoder (used by C05, C13)

type chainElem struct {
	typ  uint8
	crit bool
	resv uint8 // 7 reserved bits
	body []byte
}

func encodeChainRef(els []chainElem) []byte {
	var out []byte
	for i, e := range els {
		next := uint8(0)
		if i+1 < len(els) {
			next = els[i+1].typ
		}
		fl := e.resv & 0x7f
		if e.crit {
			fl |= 0x80
		}
		h := []byte{next, fl, 0, 0}
		binary.BigEndian.PutUint16(h[2:4], uint16(4+len(e.body)))
		out = append(out, h...)
		out = append(out, e.body...)
	}
	return out
}

func encodeHeaderRef(h *Sx, first uint8, chain []byte) []byte {
	b := make([]byte, 28)
	binary.BigEndian.PutUint64(b[0:8], h.U(1))
	binary.BigEndian.PutUint64(b[8:16], h.U(2))
	b[16] = first
	b[17] = uint8(h.U(3))<<4 | uint8(h.U(4))&0x0f
	b[18] = uint8(h.U(5))
	b[19] = uint8(h.U(6))
	binary.BigEndian.PutUint32(b[20:24], uint32(h.U(7)))
	binary.BigEndian.PutUint32(b[24:28], uint32(28+len(chain)))
	return append(b, chain...)
}

func chainOf(ps *Sx) ([]chainElem, bool) {
	var els []chainElem
	for _, p := range ps.List {
		np := buildPayload(p)
		body, err := np.Marshal()
		if err != nil || len(body) > 65531 {
			return nil, false
		}
		els = append(els, chainElem{typ: uint8(np.Type()), body: body})
	}
	return els, true
}

func propC13(c *Ctx) {
	g := NewGen(c.seed)
	s := c.suite("unsupported-payloads", "oracle",
		"messages of the encodable domain with payloads of unsupported type inserted by an independent chain encoder, through IKEMessage.Decode and (every second case) DecodeDecrypt without keys / with keys: exhaustively every type code 1..32, 49..255 x positions {front, middle, end} x both critical-flag values x body lengths {0,1,4,1024} as single insertions, plus random multi-insertions and random critical flags on supported payloads; non-trivial = >= 1 supported payload; distinct by datagram")
	s2 := c.suite("unsupported-payloads-inside-sk", "oracle",
		"every third case of the suite above once more with the chain as the inner chain of a protected message sealed by the independent reference (9 suites in rotation, both roles, both header modes): DecodeDecrypt must return the message without the insertions, or an error when an inserted payload is critical; includes inner chains that hold unsupported payloads only; non-trivial = every case; distinct by datagram")
	var corr []corrCase
	idx := 0
	run := func(sx *Sx, ins []int, insEl []chainElem, critKnown bool) {
		els, ok := chainOf(sx.List[2])
		if !ok {
			return
		}
		if critKnown {
			for i := range els {
				els[i].crit = g.chance(0.5)
			}
		}
		// insert (positions refer to the original list; processed from the back)
		anyCrit := false
		for j := len(ins) - 1; j >= 0; j-- {
			p := ins[j]
			if p > len(els) {
				p = len(els)
			}
			els = append(els[:p:p], append([]chainElem{insEl[j]}, els[p:]...)...)
			if insEl[j].crit {
				anyCrit = true
			}
		}
		chain := encodeChainRef(els)
		if len(chain) > 65000 {
			return
		}
		first := uint8(0)
		if len(els) > 0 {
			first = els[0].typ
		}
		bs := encodeHeaderRef(sx.List[1], first, chain)
		want := "ok " + renderMsg(buildMsg(sx)).String()
		if anyCrit {
			want = "err"
		}
		idx++
		dr := runDec(decoders()[0], bs)
		line := "dec msg " + hx(bs)
		s.add(line, len(sx.List[2].List) > 0, fmt.Sprintf("inserted:%d", min(len(ins), 4)), fmt.Sprintf("anycrit:%v", anyCrit), "outcome:"+dr.kind)
		if idx%7 == 0 && len(bs) < 6000 {
			corr = append(corr, corrCase{line: line, goRes: dr.String(), nontr: true})
		}
		if dr.String() != want {
			c.violate(Violation{Suite: s.Name, Kind: "property", Index: idx, Class: "unsupported-payload:" + dr.kind,
				Desc:  fmt.Sprintf("message with %d inserted unsupported payload(s) (critical=%v) not handled as prescribed", len(ins), anyCrit),
				Input: line, Expected: clip(want), Actual: clip(dr.String())})
		}
		// the other plain-message entry point: DecodeDecrypt without keys (and with keys: the datagram does not present SK)
		if idx%2 == 0 && len(els) > 0 && els[0].typ != 46 {
			var ur callRes
			who := "without keys"
			if idx%4 == 0 {
				ur = unprotect(nil, bs, message.Role(idx%8 == 0), idx%3 == 0)
			} else {
				who = "with SA keys (the datagram does not present an Encrypted payload)"
				ur = unprotect(newSA(g.saKeys(allSuites()[idx%9])), bs, message.Role(idx%8 == 2), idx%3 == 0)
			}
			if ur.String() != want {
				c.violate(Violation{Suite: s.Name, Kind: "property", Index: idx, Class: "unsupported-payload-decodedecrypt:" + ur.kind,
					Desc:  fmt.Sprintf("DecodeDecrypt %s on a plain message with %d inserted unsupported payload(s) (critical=%v) and %d supported one(s): not handled as prescribed", who, len(ins), anyCrit, len(sx.List[2].List)),
					Input: "dec msg " + hx(bs), Expected: clip(want), Actual: clip(ur.String())})
			}
		}
		// the same chain as the INNER chain of a protected message, sealed by the independent reference (its own
		// AES-CBC and HMAC): unprotecting must give the message without the insertions / an error for a critical one
		if idx%3 == 0 && len(chain) < 60000 {
			st := allSuites()[idx/3%9]
			k := g.saKeys(st)
			sender := message.Role(idx%2 == 0)
			pad := (16 - (len(chain)+1)%16) % 16
			prot := refBuildSK(k, sender, encodeHeaderRef(sx.List[1], 46, nil), first, chain, g.keyBytesRandom(16), g.keyBytesRandom(pad))
			ur := unprotect(newSA(k), prot, !sender, idx%6 == 0)
			s2.add(unprotLine(k, !sender, idx%6 == 0, prot), true, fmt.Sprintf("inserted:%d", min(len(ins), 4)), fmt.Sprintf("anycrit:%v", anyCrit), fmt.Sprintf("supported-payloads:%d", min(len(sx.List[2].List), 3)), "outcome:"+ur.kind)
			if idx%21 == 0 && len(prot) < 6000 {
				corr = append(corr, corrCase{line: unprotLine(k, !sender, idx%6 == 0, prot), goRes: ur.String(), nontr: true, tags: []string{"op:unprotect"}})
			}
			if ur.String() != want {
				c.violate(Violation{Suite: s2.Name, Kind: "property", Index: idx, Class: "unsupported-payload-inside-sk:" + ur.kind,
					Desc:  fmt.Sprintf("protected message whose inner chain holds %d inserted unsupported payload(s) (critical=%v) and %d supported one(s) not handled as prescribed", len(ins), anyCrit, len(sx.List[2].List)),
					Input: unprotLine(k, !sender, idx%6 == 0, prot), Expected: clip(want), Actual: clip(ur.String())})
			}
		}
	}
	// exhaustive single insertions
	nBase := c.n(1, 4)
	for b := 0; b < nBase; b++ {
		var sx *Sx
		for {
			sx = g.msg()
			if n := len(sx.List[2].List); n >= 2 && n <= 5 && len(sx.String()) < 3000 {
				break
			}
		}
		np := len(sx.List[2].List)
		for t := 1; t <= 255; t++ {
			if t >= 33 && t <= 48 {
				continue
			}
			for _, pos := range []int{0, np / 2, np} {
				for _, crit := range []bool{false, true} {
					for _, bl := range []int{0, 1, 4, 1024} {
						run(sx, []int{pos}, []chainElem{{typ: uint8(t), crit: crit, resv: uint8(g.r.Intn(128)), body: g.bytes(bl)}}, false)
					}
				}
			}
		}
	}
	// random multi-insertions
	for i := 0; i < c.n(1500, 60000); i++ {
		sx := g.msg()
		np := len(sx.List[2].List)
		k := 1 + g.r.Intn(4)
		if i%25 == 0 {
			k = 5 + g.r.Intn(60) // many unsupported payloads in one message
		}
		var ins []int
		var els []chainElem
		for j := 0; j < k; j++ {
			ins = append(ins, g.r.Intn(np+1))
			t := uint8(1 + g.r.Intn(32))
			if g.chance(0.7) {
				t = uint8(49 + g.r.Intn(207))
			}
			els = append(els, chainElem{typ: t, crit: k <= 4 && g.chance(0.15) || k > 4 && g.chance(0.01), resv: uint8(g.r.Intn(128)), body: g.bytes(g.size(1024) % (1 + 4096/k))})
		}
		// sort positions ascending (stable enough: simple insertion sort)
		for a := 1; a < len(ins); a++ {
			for b := a; b > 0 && ins[b] < ins[b-1]; b-- {
				ins[b], ins[b-1] = ins[b-1], ins[b]
				els[b], els[b-1] = els[b-1], els[b]
			}
		}
		run(sx, ins, els, true)
	}
	// only unsupported payloads / empty message
	for i := 0; i < 60; i++ {
		sx := L(A("msg"), g.header(), L())
		if i%2 == 0 {
			run(sx, []int{0}, []chainElem{{typ: uint8(1 + g.r.Intn(32)), body: g.bytes(g.r.Intn(9))}}, false)
		} else {
			run(sx, []int{0, 0}, []chainElem{{typ: uint8(49 + g.r.Intn(200)), body: g.bytes(g.r.Intn(9))}, {typ: uint8(1 + g.r.Intn(32)), resv: 0x7f, body: g.bytes(g.r.Intn(20))}}, false)
		}
	}
	sc := c.suite("chain-model-vs-impl", "correspondence", "sample of the datagrams above: Go Decode outcome = Lean model outcome")
	c.correspond(sc, corr)
}

// ---------------------------------------------------------------------------

func propC12(c *Ctx) {
	g := NewGen(c.seed)
	s := c.suite("decode-encode-decode", "oracle",
		"mutations of valid message encodings (reserved bits, flags, lengths, type codes, nested attribute encodings), valid encodings themselves (written by the library and, independently of it, by the RFC 7296 reference encoder of the C05 oracle: canonical and with sender liberties), and every implemented payload type with every body length 0..12: whenever Decode accepts and Encode succeeds, Decode(Encode(Decode(b))) = Decode(b) and a further Encode reproduces the bytes; canonical encodings must re-encode byte-identically; non-trivial = the decoder accepted the input and it holds >= 1 payload; distinct by input")
	s2 := c.suite("eap-unmarshal-marshal-unmarshal", "oracle",
		"same for EAP packets: Unmarshal, Marshal, Unmarshal on valid and mutated EAP encodings (all methods, AKA' attributes in any wire order incl. unknown types); non-trivial = accepted input with method data")
	var corr []corrCase
	n := c.n(6000, 300000)
	for i := 0; i < n; i++ {
		var in []byte
		canonical := false
		tag := "mut"
		// datagrams arrive from peers: half of the bases are written by the independent RFC 7296 encoder of the C05
		// oracle (canonical, or using the liberties a sender has), not by the library under test
		refBase := func(liberal bool) []byte {
			for {
				sx := g.msg()
				var libs []payLib
				if liberal {
					libs = deriveLibs(sx, 1+uint64(g.r.Int63()))
				}
				if b, err := refEncodeMsg(sx, libs); err == nil {
					return b
				}
			}
		}
		switch i % 6 {
		case 0:
			in, canonical, tag = g.baseFor("msg"), true, "canonical"
		case 1:
			in, canonical, tag = refBase(false), true, "canonical-independent-encoder"
		case 2:
			in, tag = refBase(true), "liberal-independent-encoder"
		case 3:
			in = g.mutate(refBase(g.chance(0.5)))
		default:
			in = g.mutate(g.baseFor("msg"))
		}
		if len(in) > 70000 {
			continue
		}
		c.c12Msg(s, in, canonical, tag, i, &corr)
	}
	// every implemented payload type with every small body length 0..12 (zero, 0xff and random fillings),
	// alone and followed by a second payload: degenerate bodies are where decode and encode disagree
	for t := 33; t <= 48; t++ {
		for l := 0; l <= 12; l++ {
			for k := 0; k < c.n(4, 40); k++ {
				var body []byte
				switch k {
				case 0:
					body = make([]byte, l)
				case 1:
					body = bytes.Repeat([]byte{0xff}, l)
				default:
					body = g.keyBytesRandom(l)
				}
				els := []chainElem{{typ: uint8(t), body: body}}
				if k%2 == 1 {
					els = append(els, chainElem{typ: 40, body: g.bytes(3)})
				}
				if k%4 == 2 { // an unsupported, non-critical payload between this payload and a further one
					els = append(els, chainElem{typ: uint8(g.pick(1, 5, 32, 49, 200, 255)), body: g.bytes(g.r.Intn(4))}, chainElem{typ: 40, body: g.bytes(2)})
				}
				in := encodeHeaderRef(g.header(), uint8(t), encodeChainRef(els))
				c.c12Msg(s, in, false, "small-body", n+t*1000+l*50+k, &corr)
			}
		}
	}
	// Delete payloads with every SPI size 0..8, count 0..4 and an SPI area of exactly, or up to 5 octets more than, size*count
	for sz := 0; sz <= 8; sz++ {
		for cnt := 0; cnt <= 4; cnt++ {
			for extra := 0; extra <= 5; extra++ {
				body := append([]byte{byte(g.r.Intn(4)), byte(sz), 0, byte(cnt)}, g.keyBytesRandom(sz*cnt+extra)...)
				in := encodeHeaderRef(g.header(), 42, encodeChainRef([]chainElem{{typ: 42, body: body}}))
				c.c12Msg(s, in, false, "delete-sizes", n+60000+sz*100+cnt*10+extra, &corr)
			}
		}
	}
	for i := 0; i < c.n(6000, 300000); i++ {
		var in []byte
		tag := "mut"
		switch i % 6 {
		case 0:
			in = g.baseFor("eap")
			tag = "canonical"
		case 1:
			in = g.akaWire()
			tag = "aka-wire"
		default:
			in = g.mutate(g.baseFor("eap"))
		}
		c.c12Eap(s2, in, tag, i, &corr)
	}
	c.c12Canonical()
	sc := c.suite("reencode-model-vs-impl", "correspondence", "sample: Go decode/encode outcomes = Lean model outcomes on the same inputs")
	c.correspond(sc, corr)
}

// datagrams of the C12 run that are shown to the strict RFC 7296 parser of the Lean specification (Spec.parse)
type c12SpecCase struct {
	in       []byte
	mustSome bool // written by the independent canonical encoder from a message of the domain
}

var c12SpecCases []c12SpecCase

func (c *Ctx) c12Msg(s *SuiteStat, in []byte, canonical bool, tag string, idx int, corr *[]corrCase) {
	if len(in) < 6000 && (tag == "canonical-independent-encoder" || idx%2 == 0) && len(c12SpecCases) < c.n(2500, 30000) {
		c12SpecCases = append(c12SpecCases, c12SpecCase{in: in, mustSome: tag == "canonical-independent-encoder"})
	}
	m1 := new(message.IKEMessage)
	d1 := guard(func() (string, error) {
		if err := m1.Decode(exact(in)); err != nil {
			return "", err
		}
		return renderMsg(m1).String(), nil
	})
	line := "dec msg " + hx(in)
	if d1.kind != "ok" {
		s.add(line, false, "in:"+tag, "decode:"+d1.kind)
		return
	}
	e1 := encodeMsgRes(m1)
	s.add(line, len(m1.Payloads) > 0, "in:"+tag, "decode:ok", "encode:"+e1.kind)
	if corr != nil && idx%5 == 0 && len(in) < 6000 {
		*corr = append(*corr, corrCase{line: "reenc msg " + hx(in), goRes: e1.String(), nontr: len(m1.Payloads) > 0})
	}
	if e1.kind == "panic" {
		// Delete with SPI size < 4 and a non-zero count makes Marshal panic: the antecedent "encodes again" is false.
		// A panic is still worth reporting under C12's replay only if it is not that documented case.
		if !deleteSmallSPI(m1) {
			c.violate(Violation{Suite: s.Name, Kind: "property", Index: idx, Class: "panic:reencode", Desc: "Encode of a decoded message panicked: " + e1.val, Input: line, Expected: "value or error", Actual: "panic"})
		} else {
			s.Dist["encode:panic-delete-small-spi"]++
		}
		return
	}
	if e1.kind != "ok" {
		return
	}
	b1 := unhx(e1.val)
	if canonical && !bytes.Equal(b1, in) {
		c.violate(Violation{Suite: s.Name, Kind: "property", Index: idx, Class: "canonical-not-identical",
			Desc: "re-encoding of a canonical datagram is not byte-identical", Input: line, Expected: hx(in), Actual: hx(b1)})
		return
	}
	m2 := new(message.IKEMessage)
	d2 := guard(func() (string, error) {
		if err := m2.Decode(exact(b1)); err != nil {
			return "", err
		}
		return renderMsg(m2).String(), nil
	})
	if d2 != d1 {
		c.violate(Violation{Suite: s.Name, Kind: "property", Index: idx, Class: "unstable-decode:" + d2.kind,
			Desc: "Decode(Encode(Decode(b))) differs from Decode(b)", Input: line, Expected: clip(d1.String()), Actual: clip(d2.String())})
		return
	}
	e2 := encodeMsgRes(m2)
	if e2 != e1 {
		c.violate(Violation{Suite: s.Name, Kind: "property", Index: idx, Class: "unstable-encode",
			Desc: "second re-encoding differs from the first", Input: line, Expected: clip(e1.String()), Actual: clip(e2.String())})
	}
}

// "canonical" decided independently of the library: the strict RFC 7296 parser of the Lean specification
// (IkeModel/Spec/Parse.lean, theorems C05Parse / C12Canonical) says which datagrams are canonical and which fields
// they carry; the implementation must decode them to exactly those fields and re-encode them byte-identically
func (c *Ctx) c12Canonical() {
	s := c.suite("canonical-by-the-spec-parser", "oracle",
		"half of the datagrams of the decode-encode-decode suite (canonical, liberal, mutated; < 6000 octets) are given to Spec.parse (Lean, strict RFC 7296 parser, through the driver): whenever it accepts a datagram, Decode must return exactly the fields it read and Encode of the decoded message must reproduce the datagram octet for octet; every datagram written by the independent canonical encoder from a message of the domain must be accepted by Spec.parse (tie); non-trivial = accepted by Spec.parse; distinct by datagram")
	defer func() { c12SpecCases = nil }()
	if c.driver == "" || len(c12SpecCases) == 0 {
		c.note("suite %s skipped (no driver)", s.Name)
		return
	}
	lines := make([]string, len(c12SpecCases))
	for i, cs := range c12SpecCases {
		lines[i] = "spec-parse " + hx(cs.in)
	}
	res, err := c.runDriver(lines)
	if err != nil {
		c.violate(Violation{Suite: s.Name, Kind: "correspondence", Class: "driver-failure", Desc: err.Error()})
		return
	}
	for i, cs := range c12SpecCases {
		accepted := strings.HasPrefix(res[i], "some ")
		s.add(lines[i], accepted, fmt.Sprintf("spec-parse-accepts:%v", accepted), fmt.Sprintf("independent-canonical-encoder:%v", cs.mustSome))
		if !accepted {
			if cs.mustSome || res[i] != "none" {
				c.violate(Violation{Suite: s.Name, Kind: "correspondence", Index: i, Class: "spec-parse-rejects-canonical",
					Desc: "the strict parser of the Lean specification rejects a datagram written by the independent canonical encoder", Input: lines[i], Expected: "some ...", Actual: clip(res[i])})
			}
			continue
		}
		want := "ok " + res[i][len("some "):]
		m := new(message.IKEMessage)
		d := guard(func() (string, error) {
			if err := m.Decode(exact(cs.in)); err != nil {
				return "", err
			}
			return renderMsg(m).String(), nil
		})
		if d.kind == "err" {
			// the strict parser also reads canonical encodings of values OUTSIDE the encodable domain (empty key exchange /
			// identity / authentication data, an SA without proposals, a proposal without transforms, CP without
			// attributes, an empty TLV value, Delete with inconsistent SPI size): the library refuses those on purpose
			if rs, err := ParseSx(res[i][len("some "):]); err == nil && !msgInDomain(rs) {
				s.Dist["accepted-by-spec-parser-but-outside-the-domain"]++
				continue
			}
		}
		if d.String() != want {
			c.violate(Violation{Suite: s.Name, Kind: "property", Index: i, Class: "canonical-datagram-decode:" + d.kind,
				Desc: "a canonical datagram (accepted by the strict RFC 7296 parser of the specification) is not decoded to the fields it carries", Input: "dec msg " + hx(cs.in), Expected: clip(want), Actual: clip(d.String())})
			continue
		}
		if e := encodeMsgRes(m); e.kind != "ok" || e.val != hx(cs.in) {
			c.violate(Violation{Suite: s.Name, Kind: "property", Index: i, Class: "canonical-not-identical",
				Desc: "re-encoding of a canonical datagram (accepted by the strict RFC 7296 parser of the specification) is not byte-identical", Input: "dec msg " + hx(cs.in), Expected: hx(cs.in), Actual: clip(e.String())})
		}
	}
}

// msgInDomain: the "encodable domain" of the properties, on a rendered message (output form)
func msgInDomain(m *Sx) bool {
	if !m.IsL || len(m.List) < 3 {
		return false
	}
	for _, p := range m.List[2].List {
		switch p.Head() {
		case "KE", "IDi", "IDr", "CERT", "CERTREQ", "AUTH":
			if len(p.B(2)) == 0 {
				return false
			}
		case "SA":
			for _, pr := range p.List[1].List {
				n := 0
				for c := 4; c <= 8; c++ {
					for _, t := range pr.List[c].List {
						n++
						if t.U(3) == 1 && t.U(4) == 0 && len(t.B(7)) == 0 { // TLV without a value
							return false
						}
					}
				}
				if n == 0 {
					return false
				}
			}
		case "TSi", "TSr":
			if n := len(p.List[1].List); n < 1 || n > 255 {
				return false
			}
		case "CP":
			if len(p.List[2].List) == 0 {
				return false
			}
		case "D":
			sz, cnt, n := p.U(2), p.U(3), uint64(len(p.List[4].List))
			if !(sz == 0 && cnt == 0 && n == 0) && !(sz == 4 && cnt == n) {
				return false
			}
		case "EAP":
			if len(p.List) >= 4 && p.List[3].IsL {
				switch td := p.List[3]; td.Head() {
				case "ID", "NOTIF", "NAK":
					if len(td.B(1)) == 0 {
						return false
					}
				}
			}
		}
	}
	return true
}

func deleteSmallSPI(m *message.IKEMessage) bool {
	for _, p := range m.Payloads {
		if d, ok := p.(*message.Delete); ok && d.SPISize < 4 && d.NumberOfSPI > 0 {
			return true
		}
	}
	return false
}

func (c *Ctx) c12Eap(s *SuiteStat, in []byte, tag string, idx int, corr *[]corrCase) {
	e1 := new(eap.EAP)
	d1 := guard(func() (string, error) {
		if err := e1.Unmarshal(exact(in)); err != nil {
			return "", err
		}
		return renderEAP(e1).String(), nil
	})
	line := "dec eap " + hx(in)
	if d1.kind != "ok" {
		s.add(line, false, "in:"+tag, "decode:"+d1.kind)
		return
	}
	m1 := guard(func() (string, error) {
		b, err := e1.Marshal()
		if err != nil {
			return "", err
		}
		return hx(b), nil
	})
	s.add(line, e1.EapTypeData != nil, "in:"+tag, "decode:ok", "encode:"+m1.kind)
	if corr != nil && idx%5 == 0 {
		*corr = append(*corr, corrCase{line: "reenc eap " + hx(in), goRes: m1.String(), nontr: e1.EapTypeData != nil})
	}
	if m1.kind == "panic" {
		c.violate(Violation{Suite: s.Name, Kind: "property", Index: idx, Class: "panic:eap-marshal", Desc: "Marshal of a decoded EAP packet panicked: " + m1.val, Input: line, Expected: "value or error", Actual: "panic"})
		return
	}
	if m1.kind != "ok" {
		return
	}
	b1 := unhx(m1.val)
	if len(b1) > 65535 {
		return
	}
	e2 := new(eap.EAP)
	d2 := guard(func() (string, error) {
		if err := e2.Unmarshal(exact(b1)); err != nil {
			return "", err
		}
		return renderEAP(e2).String(), nil
	})
	if d2 != d1 {
		c.violate(Violation{Suite: s.Name, Kind: "property", Index: idx, Class: "eap-unstable-decode:" + d2.kind,
			Desc: "Unmarshal(Marshal(Unmarshal(b))) differs from Unmarshal(b)", Input: line, Expected: clip(d1.String()), Actual: clip(d2.String())})
		return
	}
	m2 := guard(func() (string, error) {
		b, err := e2.Marshal()
		if err != nil {
			return "", err
		}
		return hx(b), nil
	})
	if m2 != m1 {
		c.violate(Violation{Suite: s.Name, Kind: "property", Index: idx, Class: "eap-unstable-encode",
			Desc: "second Marshal differs from the first", Input: line, Expected: clip(m1.String()), Actual: clip(m2.String())})
	}
}

// ---------------------------------------------------------------------------

func propC20(c *Ctx) {
	g := NewGen(c.seed)
	s := c.suite("scribble-after-decode", "oracle",
		"decode (and unprotect) from an exact buffer, snapshot every payload, overwrite the input buffer (all 0x00, all 0xFF, shifted by one, reversed), compare; then Encode the decoded message 12 times: identical bytes, payloads unchanged; accepted mutated inputs and datagrams carrying EAP-AKA' packets written without the library included; non-trivial = >= 1 payload")
	s2 := c.suite("encode-pure-deterministic", "oracle",
		"Encode N times: identical bytes, message payloads unchanged, writes into the returned buffer do not change the message or later encodings; protect (one long-lived SA object per suite): payload list replaced by one SK payload, header fields and the original payload objects unchanged, and the Encrypted payloads of the last three messages protected by the same SA object in either role stay as they were; non-trivial = >= 1 payload")
	n := c.n(1500, 80000)
	for i := 0; i < n; i++ {
		var in []byte
		if i%3 == 0 {
			in = g.mutate(g.baseFor("msg"))
		} else if i%7 == 1 {
			// written by a peer: an EAP payload holding an EAP-AKA' packet produced without the library (any attribute
			// order, attributes the library keeps without interpreting), between other payloads
			els := []chainElem{{typ: 48, body: g.akaWire()}}
			if g.chance(0.5) {
				els = append([]chainElem{{typ: 40, body: g.bytes(1 + g.r.Intn(20))}}, els...)
			}
			if g.chance(0.5) {
				els = append(els, chainElem{typ: 43, body: g.bytes(1 + g.r.Intn(20))})
			}
			in = encodeHeaderRef(g.header(), els[0].typ, encodeChainRef(els))
		} else {
			in = g.baseFor("msg")
		}
		if len(in) > 70000 {
			continue
		}
		c.c20Scribble(s, in, i, nil, false)
	}
	// via unprotect
	for _, st := range allSuites() {
		for i := 0; i < c.n(8, 400); i++ {
			k := g.saKeys(st)
			role := message.Role(i%2 == 0)
			p, _ := protect(newSA(k), buildMsg(g.protMsg()), role, g.keyBytesRandom(32), -1)
			if p.kind != "ok" {
				continue
			}
			c.c20Scribble(s, unhx(p.val), i, k, bool(!role))
		}
	}
	for i := 0; i < c.n(1500, 80000); i++ {
		c.c20Encode(s2, g, g.msg(), i)
	}
	c.c20ManyCalls(g)
}

func (c *Ctx) c20Scribble(s *SuiteStat, in []byte, idx int, k *saKeys, recvRole bool) {
	buf := exact(in)
	var m *message.IKEMessage
	r := guard(func() (string, error) {
		if k != nil {
			var err error
			var h *message.IKEHeader
			if idx%2 == 1 {
				if h, err = message.ParseHeader(buf); err != nil {
					return "", err
				}
			}
			m, err = ikeDecodeDecrypt(buf, h, newSA(k), message.Role(recvRole))
			if err != nil {
				return "", err
			}
		} else {
			m = new(message.IKEMessage)
			if err := m.Decode(buf); err != nil {
				return "", err
			}
		}
		return renderPayloads(m.Payloads).String(), nil
	})
	line := "scribble " + hx(in)
	if r.kind != "ok" {
		s.add(line, false, "decode:"+r.kind)
		return
	}
	s.add(line, len(m.Payloads) > 0, "decode:ok", fmt.Sprintf("via-unprotect:%v", k != nil))
	for pass := 0; pass < 4; pass++ {
		switch pass {
		case 0:
			for i := range buf {
				buf[i] = 0
			}
		case 1:
			for i := range buf {
				buf[i] = 0xff
			}
		case 2:
			copy(buf, in)
			copy(buf[1:], in)
		case 3:
			for i := range buf {
				buf[i] = in[len(in)-1-i] ^ 0x5a
			}
		}
		after := renderPayloads(m.Payloads).String()
		if after != r.val {
			c.violate(Violation{Suite: s.Name, Kind: "property", Index: idx, Class: "alias-input",
				Desc: "a decoded payload changed when the input buffer was overwritten", Input: line, Expected: clip(r.val), Actual: clip(after)})
			return
		}
	}
	// encoding the DECODED message: pure and deterministic as well (12 encodings)
	if k == nil {
		var first []byte
		for rep := 0; rep < 12; rep++ {
			b, err := m.Encode()
			if err != nil {
				break
			}
			if rep == 0 {
				first = append([]byte{}, b...)
			} else if !bytes.Equal(first, b) {
				c.violate(Violation{Suite: s.Name, Kind: "property", Index: idx, Class: "encode-nondeterministic-decoded",
					Desc: fmt.Sprintf("encoding #%d of a decoded, unmodified message differs from its first encoding", rep+1), Input: line, Expected: hx(first), Actual: hx(b)})
				return
			}
			if after := renderPayloads(m.Payloads).String(); after != r.val {
				c.violate(Violation{Suite: s.Name, Kind: "property", Index: idx, Class: "encode-mutates-decoded",
					Desc: "Encode altered a decoded message", Input: line, Expected: clip(r.val), Actual: clip(after)})
				return
			}
		}
	}
}

type c20KeptMsg struct {
	m    *message.IKEMessage
	want string
}

var c20SAs [9]*security.IKESAKey
var c20Kept [9][2][]c20KeptMsg // per suite and sender role: the last three protected messages

func (c *Ctx) c20Encode(s *SuiteStat, g *Gen, sx *Sx, idx int) {
	m := buildMsg(sx)
	before := renderMsg(m).String()
	line := "enc msg " + sx.String()
	nontr := len(sx.List[2].List) > 0
	e1 := encodeMsgRes(m)
	s.add(line, nontr, "encode:"+e1.kind)
	if e1.kind != "ok" {
		return
	}
	if a := renderMsg(m).String(); a != before {
		c.violate(Violation{Suite: s.Name, Kind: "property", Index: idx, Class: "encode-mutates", Desc: "Encode altered the message", Input: line, Expected: clip(before), Actual: clip(a)})
		return
	}
	b1, _ := m.Encode()
	keep := append([]byte{}, b1...)
	for i := range b1 {
		b1[i] ^= 0xff
	}
	if a := renderMsg(m).String(); a != before {
		c.violate(Violation{Suite: s.Name, Kind: "property", Index: idx, Class: "encode-buffer-aliased", Desc: "writing into the returned buffer changed the message", Input: line, Expected: clip(before), Actual: clip(a)})
		return
	}
	for k := 0; k < 3; k++ {
		b2, err := m.Encode()
		if err != nil || !bytes.Equal(b2, keep) {
			c.violate(Violation{Suite: s.Name, Kind: "property", Index: idx, Class: "encode-nondeterministic", Desc: "repeated Encode gives different bytes", Input: line, Expected: hx(keep), Actual: hx(b2)})
			return
		}
	}
	if hx(keep) != e1.val {
		c.violate(Violation{Suite: s.Name, Kind: "property", Index: idx, Class: "encode-nondeterministic", Desc: "repeated Encode gives different bytes", Input: line, Expected: e1.val, Actual: hx(keep)})
		return
	}
	// the message is then modified IN PLACE (one field of one payload object) and encoded again: Encode is a function of
	// the message as it is now (nothing remembered from the earlier encodings of the same objects)
	if what := mutateInPlace(g, m); what != "" {
		now := renderMsg(m)
		if fresh, err := ParseSx(now.String()); err == nil {
			ea, eb := encodeMsgRes(m), encodeMsgRes(buildMsg(fresh))
			if ea != eb {
				c.violate(Violation{Suite: s.Name, Kind: "property", Index: idx, Class: "encode-remembers-earlier-state",
					Desc:  "after " + what + " was changed in place on a message that had been encoded before, Encode differs from Encode of a new message with the same fields (replay: re-run of the suite with this seed)",
					Input: "enc msg " + now.String(), Expected: clip(eb.String()), Actual: clip(ea.String())})
				return
			}
		}
	}
	// protect
	if idx%4 == 0 {
		// one long-lived SA object per suite serves all protections of this run, and the messages protected earlier stay
		// referenced: a later protection must not reach into them
		si := idx / 4 % 9
		if c20SAs[si] == nil {
			c20SAs[si] = newSA(g.saKeys(allSuites()[si]))
		}
		for _, kp := range append(append([]c20KeptMsg{}, c20Kept[si][0]...), c20Kept[si][1]...) {
			if a := renderPayloads(kp.m.Payloads).String(); a != kp.want {
				c.violate(Violation{Suite: s.Name, Kind: "property", Index: idx, Class: "protect-alters-earlier-message",
					Desc:  "the Encrypted payload of a message protected EARLIER (same SA object) changed when a later message was protected (replay: re-run of the suite with this seed)",
					Input: "", Expected: clip(kp.want), Actual: clip(a)})
				c20Kept[si] = [2][]c20KeptMsg{}
				return
			}
		}
		m2 := buildMsg(sx)
		orig := append(message.IKEPayloadContainer{}, m2.Payloads...)
		origR := renderPayloads(orig).String()
		// the caller's own view of the container it handed to the message (same backing array, own slice header), and a
		// second message over the same container: protecting m2 is not allowed to reach either
		shared := m2.Payloads
		var sibling *message.IKEMessage
		var siblingEnc callRes
		if len(shared) > 0 {
			sibling = &message.IKEMessage{IKEHeader: &message.IKEHeader{InitiatorSPI: 1, ResponderSPI: 2, MajorVersion: 2, ExchangeType: 35}, Payloads: shared}
			siblingEnc = encodeMsgRes(sibling)
		}
		hdrR := renderHeader(m2.IKEHeader).String()
		prole := message.Role(idx%8 == 0)
		p, _ := protect(c20SAs[si], m2, prole, g.keyBytesRandom(32), -1)
		if p.kind != "ok" {
			return
		}
		ri := 0
		if prole {
			ri = 1
		}
		if len(c20Kept[si][ri]) >= 3 {
			c20Kept[si][ri] = c20Kept[si][ri][1:]
		}
		c20Kept[si][ri] = append(c20Kept[si][ri], c20KeptMsg{m2, renderPayloads(m2.Payloads).String()})
		if len(m2.Payloads) != 1 || m2.Payloads[0].Type() != message.TypeSK {
			c.violate(Violation{Suite: s.Name, Kind: "property", Index: idx, Class: "protect-effect", Desc: "after protect the payload list is not exactly one SK payload", Input: line, Expected: "[SK]", Actual: clip(renderPayloads(m2.Payloads).String())})
			return
		}
		if a := renderHeader(m2.IKEHeader).String(); a != hdrR {
			c.violate(Violation{Suite: s.Name, Kind: "property", Index: idx, Class: "protect-effect", Desc: "protect altered header fields", Input: line, Expected: hdrR, Actual: a})
			return
		}
		if a := renderPayloads(shared).String(); a != origR {
			c.violate(Violation{Suite: s.Name, Kind: "property", Index: idx, Class: "protect-effect",
				Desc: "protect altered the container the caller still holds (same backing array as the message's former payload list)", Input: line, Expected: clip(origR), Actual: clip(a)})
			return
		}
		if sibling != nil {
			if e := encodeMsgRes(sibling); e != siblingEnc {
				c.violate(Violation{Suite: s.Name, Kind: "property", Index: idx, Class: "protect-effect",
					Desc: "protecting one message changed the encoding of ANOTHER message built over the same payload container", Input: line, Expected: clip(siblingEnc.String()), Actual: clip(e.String())})
				return
			}
		}
		if a := renderPayloads(orig).String(); a != origR {
			c.violate(Violation{Suite: s.Name, Kind: "property", Index: idx, Class: "protect-effect", Desc: "protect altered the original payload objects", Input: line, Expected: clip(origR), Actual: clip(a)})
		}
	}
}

// ---------------------------------------------------------------------------
// C05 is completed in oracle_spec.go (needs the Lean Spec encoder); the Go-side
// independent well-formedness walk lives here.

// wfWalk checks a datagram against RFC 7296 framing rules without using the library.
func wfWalk(b []byte) error {
	if len(b) < 28 {
		return fmt.Errorf("short header")
	}
	if int(binary.BigEndian.Uint32(b[24:28])) != len(b) {
		return fmt.Errorf("header length %d != datagram size %d", binary.BigEndian.Uint32(b[24:28]), len(b))
	}
	next := b[16]
	rest := b[28:]
	for len(rest) > 0 {
		if next == 0 {
			return fmt.Errorf("payload follows next-payload 0")
		}
		if len(rest) < 4 {
			return fmt.Errorf("truncated generic header")
		}
		if rest[1] != 0 {
			return fmt.Errorf("critical/reserved octet %#x on payload type %d", rest[1], next)
		}
		l := int(binary.BigEndian.Uint16(rest[2:4]))
		if l < 4 || l > len(rest) {
			return fmt.Errorf("payload length %d of type %d does not fit (%d left)", l, next, len(rest))
		}
		if err := wfBody(next, rest[4:l]); err != nil {
			return fmt.Errorf("payload type %d: %v", next, err)
		}
		next = rest[0]
		rest = rest[l:]
	}
	if next != 0 {
		return fmt.Errorf("chain does not end with next-payload 0 (got %d)", next)
	}
	return nil
}

func wfBody(t uint8, b []byte) error {
	switch t {
	case 33: // SA: proposals
		for len(b) > 0 {
			if len(b) < 8 {
				return fmt.Errorf("truncated proposal")
			}
			pl := int(binary.BigEndian.Uint16(b[2:4]))
			if pl < 8 || pl > len(b) {
				return fmt.Errorf("proposal length %d", pl)
			}
			last := pl == len(b)
			if (last && b[0] != 0) || (!last && b[0] != 2) {
				return fmt.Errorf("proposal last-substructure marker %d (last=%v)", b[0], last)
			}
			if b[1] != 0 {
				return fmt.Errorf("proposal reserved %d", b[1])
			}
			spi := int(b[6])
			nt := int(b[7])
			if 8+spi > pl {
				return fmt.Errorf("SPI overruns proposal")
			}
			tb := b[8+spi : pl]
			cnt := 0
			for len(tb) > 0 {
				if len(tb) < 8 {
					return fmt.Errorf("truncated transform")
				}
				tl := int(binary.BigEndian.Uint16(tb[2:4]))
				if tl < 8 || tl > len(tb) {
					return fmt.Errorf("transform length %d", tl)
				}
				tlast := tl == len(tb)
				if (tlast && tb[0] != 0) || (!tlast && tb[0] != 3) {
					return fmt.Errorf("transform last-substructure marker %d (last=%v)", tb[0], tlast)
				}
				if tb[1] != 0 || tb[5] != 0 {
					return fmt.Errorf("transform reserved octets %d %d", tb[1], tb[5])
				}
				if tl > 8 {
					if tl < 12 {
						return fmt.Errorf("attribute shorter than 4")
					}
					if tb[8]&0x80 == 0 { // TLV
						al := int(binary.BigEndian.Uint16(tb[10:12]))
						if 12+al != tl {
							return fmt.Errorf("TLV attribute length %d vs transform length %d", al, tl)
						}
					} else if tl != 12 {
						return fmt.Errorf("TV attribute in transform of length %d", tl)
					}
				}
				cnt++
				tb = tb[tl:]
			}
			if cnt != nt {
				return fmt.Errorf("transform count %d != %d", nt, cnt)
			}
			b = b[pl:]
		}
	case 34: // KE
		if len(b) < 4 || b[2] != 0 || b[3] != 0 {
			return fmt.Errorf("KE reserved")
		}
	case 35, 36, 39: // IDi IDr AUTH
		if len(b) < 4 || b[1] != 0 || b[2] != 0 || b[3] != 0 {
			return fmt.Errorf("reserved octets not zero")
		}
	case 41: // Notify
		if len(b) < 4 || 4+int(b[1]) > len(b) {
			return fmt.Errorf("notify SPI size")
		}
	case 42: // Delete
		if len(b) < 4 || 4+int(b[1])*int(binary.BigEndian.Uint16(b[2:4])) != len(b) {
			return fmt.Errorf("delete extent")
		}
	case 44, 45: // TS
		if len(b) < 4 || b[1] != 0 || b[2] != 0 || b[3] != 0 {
			return fmt.Errorf("TS reserved")
		}
		n := int(b[0])
		b = b[4:]
		for i := 0; i < n; i++ {
			if len(b) < 8 {
				return fmt.Errorf("truncated selector")
			}
			sl := int(binary.BigEndian.Uint16(b[2:4]))
			if (b[0] == 7 && sl != 16) || (b[0] == 8 && sl != 40) || sl > len(b) || sl < 8 {
				return fmt.Errorf("selector length %d for type %d", sl, b[0])
			}
			b = b[sl:]
		}
		if len(b) != 0 {
			return fmt.Errorf("octets after the last selector")
		}
	case 47: // CP
		if len(b) < 4 || b[1] != 0 || b[2] != 0 || b[3] != 0 {
			return fmt.Errorf("CP reserved")
		}
		b = b[4:]
		for len(b) > 0 {
			if len(b) < 4 {
				return fmt.Errorf("truncated attribute")
			}
			if b[0]&0x80 != 0 {
				return fmt.Errorf("attribute reserved bit set")
			}
			al := int(binary.BigEndian.Uint16(b[2:4]))
			if 4+al > len(b) {
				return fmt.Errorf("attribute length %d", al)
			}
			b = b[4+al:]
		}
	case 48: // EAP
		if len(b) < 4 || int(binary.BigEndian.Uint16(b[2:4])) != len(b) {
			return fmt.Errorf("EAP length field")
		}
	}
	return nil
}
